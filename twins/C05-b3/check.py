"""Standalone check of property C05 (cache admission).

Run as:  cd <repo root> && /venv/bin/python check.py
Prints "PROPERTY HOLDS" and exits 0, or "PROPERTY VIOLATED: ..." and exits 1.
"""
import sys
import os

sys.path.insert(0, os.getcwd())

import io
import shutil
import tempfile
import contextlib
import logging

logging.disable(logging.CRITICAL)

COUNTER = [0]


class Violation(Exception):
    pass


def register_commands():
    from liquer.commands import command, first_command, reset_command_registry

    reset_command_registry()

    @first_command
    def one():
        return 1

    @first_command
    def hello():
        return "hello"

    @command
    def add(x, y=1):
        return int(x) + int(y)

    @command
    def twice(x):
        return x * 2

    @first_command(volatile=True)
    def vol():
        COUNTER[0] += 1
        return 1000 + COUNTER[0]

    @command
    def fail(x):
        raise Exception("intentional failure")

    @command
    def nocache(x, context=None):
        context.disable_cache()
        return int(x) + 100


# (as typed query, extra_parameters, cacheable?, expected value or None)
# Expected value is only given for deterministic, successful queries.
PLAN = [
    ("one", None, True, 1),
    ("one/add-2", None, True, 3),
    ("one/add-~1", None, True, 0),  # canonical spelling is one/add-~_1
    ("hello/twice", None, True, "hellohello"),
    ("vol", None, False, None),
    ("vol/add-1", None, False, None),
    ("vol/add-1/add-1", None, False, None),
    ("one/fail", None, False, None),
    ("one/fail/add-1", None, False, None),
    ("one/nocache", None, False, None),
    ("one/nocache/add-1", None, False, None),
    ("one/nocache/add-1/add-1", None, False, None),
    ("one/add-2/add-3", None, True, 6),
    # extra parameters make the evaluation volatile; it must not overwrite
    # or be filed as the plain query
    ("one/add-2/add", [40], False, None),
    ("one/add-2/add", None, True, 4),
    ("one/add-2/add", [50], False, None),
    ("one/add", {"y": 7}, False, None),
    # re-evaluations (cache hits and re-evaluated rejected ones)
    ("one/add-2", None, True, 3),
    ("vol/add-1", None, False, None),
    ("one/fail/add-1", None, False, None),
    ("one/nocache/add-1", None, False, None),
    ("one/add-~1", None, True, 0),
    ("one/add", None, True, 2),
]


def quiet(f, *arg, **kwarg):
    out = io.StringIO()
    with contextlib.redirect_stdout(out), contextlib.redirect_stderr(out):
        return f(*arg, **kwarg)


def fresh_value(query):
    """Evaluate query without any cache; returns (is_error, value)"""
    from liquer.cache import NoCache, set_cache, get_cache
    from liquer.context import get_context

    old = get_cache()
    set_cache(NoCache())
    try:
        state = quiet(get_context().evaluate, query, cache=NoCache())
        if state.is_error:
            return True, None
        return False, state.data
    finally:
        set_cache(old)


def canonical(query):
    from liquer.parser import parse

    return parse(query).encode()


def prefixes(query):
    parts = query.split("/")
    return ["/".join(parts[: i + 1]) for i in range(len(parts))]


def inspect_cache(name, cache, rejected, accepted, step):
    """Inspect the whole cache after an evaluation."""
    where = f"[{name}, step {step}]"
    keys = list(cache.keys())
    for key in keys:
        state = quiet(cache.get, key)
        if state is None:
            continue  # metadata only - allowed
        if key != canonical(key):
            raise Violation(f"{where} data filed under non-canonical key {key!r}")
        if key in rejected:
            raise Violation(f"{where} data retrievable for rejected key {key!r}")
        if state.is_error or state.metadata.get("is_error"):
            raise Violation(f"{where} cache serves error state for {key!r}")
        if state.metadata.get("status") != "ready":
            raise Violation(f"{where} cache serves non-ready state for {key!r}")
        if state.is_volatile():
            raise Violation(f"{where} cache serves volatile state for {key!r}")
        if not state.metadata.get("caching", True):
            raise Violation(f"{where} cache serves caching=False state for {key!r}")
        is_error, value = fresh_value(key)
        if is_error:
            raise Violation(f"{where} cache has data for failing key {key!r}")
        if value != state.data:
            raise Violation(
                f"{where} cache returns {state.data!r} for {key!r}, fresh evaluation gives {value!r}"
            )
    for q in rejected:
        for spelling in {q, canonical(q)}:
            if quiet(cache.get, spelling) is not None:
                raise Violation(f"{where} rejected query {spelling!r} is retrievable")
    for q, expected in accepted.items():
        c = canonical(q)
        state = quiet(cache.get, c)
        if state is None:
            raise Violation(f"{where} successful query {c!r} is not cached")
        if state.data != expected:
            raise Violation(
                f"{where} cache returns {state.data!r} for {c!r}, expected {expected!r}"
            )
        if c != q:
            s = quiet(cache.get, q)
            if s is not None and s.data != expected:
                raise Violation(f"{where} as-typed {q!r} returns wrong data {s.data!r}")


def run_scenario(name, cache):
    from liquer.cache import set_cache
    from liquer.context import get_context

    register_commands()
    set_cache(cache)
    rejected = set()
    accepted = {}
    try:
        for step, (query, extra, cacheable, expected) in enumerate(PLAN):
            state = quiet(get_context().evaluate, query, extra_parameters=extra)
            if expected is not None:
                if state.is_error:
                    raise Violation(f"[{name}, step {step}] {query!r} failed unexpectedly")
                if state.get() != expected:
                    raise Violation(
                        f"[{name}, step {step}] {query!r} evaluated to {state.get()!r}, expected {expected!r}"
                    )
            if extra is not None:
                if not state.is_volatile():
                    raise Violation(
                        f"[{name}, step {step}] {query!r} with extra parameters is not volatile"
                    )
                # A volatile re-evaluation may evict the plain entry; presence
                # is then no longer required (content is still checked).
                accepted.pop(query, None)
                accepted.pop(canonical(query), None)
            elif cacheable:
                for p in prefixes(query):
                    e, v = fresh_value(p)
                    accepted[p] = v
            else:
                rejected.add(query)
            inspect_cache(name, cache, rejected, accepted, step)
    finally:
        set_cache(None)


def run_input_value_scenario(name, cache):
    """Injected input value: nothing may be admitted."""
    from liquer.cache import set_cache
    from liquer.context import get_context

    register_commands()
    set_cache(cache)
    try:
        state = quiet(get_context().evaluate_on, 10, "add-5")
        if state.is_error or state.get() != 15:
            raise Violation(f"[{name}] evaluate_on gave wrong result")
        state = quiet(
            get_context().evaluate, "add-5", input_value=20, input_value_specified=True
        )
        if state.is_error or state.get() != 25:
            raise Violation(f"[{name}] evaluate with input_value gave wrong result")
        for key in list(cache.keys()):
            if quiet(cache.get, key) is not None:
                raise Violation(
                    f"[{name}] data admitted for {key!r} evaluated with injected input"
                )
        if quiet(cache.get, "add-5") is not None:
            raise Violation(f"[{name}] add-5 retrievable after injected input")
    finally:
        set_cache(None)


def make_caches(tmp):
    from liquer.cache import (
        MemoryCache,
        FileCache,
        SQLCache,
        StoreCache,
        XORFileCache,
    )
    from liquer.store import MemoryStore

    yield "MemoryCache", lambda: MemoryCache()
    yield "FileCache", lambda: FileCache(tempfile.mkdtemp(dir=tmp))
    yield "XORFileCache", lambda: XORFileCache(tempfile.mkdtemp(dir=tmp), b"**")
    yield "SQLCache", lambda: SQLCache.from_sqlite()
    yield "StoreCache", lambda: StoreCache(MemoryStore(), "cache")
    yield "StoreCache-flat", lambda: StoreCache(MemoryStore(), "cache", flat=True)


def main():
    tmp = tempfile.mkdtemp(prefix="c05check_")
    cwd = os.getcwd()
    try:
        os.chdir(tmp)
        for name, factory in make_caches(tmp):
            run_scenario(name, quiet(factory))
            run_input_value_scenario(name, quiet(factory))
    except Violation as v:
        print(f"PROPERTY VIOLATED: {v}")
        return 1
    except Exception as e:
        import traceback

        traceback.print_exc()
        print(f"PROPERTY VIOLATED: unexpected exception {type(e).__name__}: {e}")
        return 1
    finally:
        os.chdir(cwd)
        shutil.rmtree(tmp, ignore_errors=True)
        from liquer.commands import reset_command_registry

        reset_command_registry()
    print("PROPERTY HOLDS")
    return 0


if __name__ == "__main__":
    sys.exit(main())
