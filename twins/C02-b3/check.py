"""Standalone check of property C02:
canonical query text is a fixed point of parsing and encoding.

Run as:  cd <repo root> && /venv/bin/python check.py
"""
import os
import sys
import random
import shutil
import tempfile
import itertools

sys.path.insert(0, os.getcwd())

from liquer.parser import (  # noqa: E402
    parse,
    Query,
    TransformQuerySegment,
    ResourceQuerySegment,
    SegmentHeader,
    ActionRequest,
    StringActionParameter,
    LinkActionParameter,
    ResourceName,
)


class Violation(Exception):
    pass


def struct(x):
    """Position-free structural description of a parsed query."""
    if x is None:
        return None
    if isinstance(x, Query):
        return ("Query", bool(x.absolute), tuple(struct(s) for s in x.segments))
    if isinstance(x, TransformQuerySegment):
        return (
            "TQS",
            struct(x.header),
            tuple(struct(a) for a in x.query),
            None if x.filename is None else str(x.filename),
        )
    if isinstance(x, ResourceQuerySegment):
        return ("RQS", struct(x.header), tuple(struct(a) for a in x.query))
    if isinstance(x, SegmentHeader):
        return (
            "HDR",
            x.name,
            x.level,
            bool(x.resource),
            tuple(struct(p) for p in x.parameters),
        )
    if isinstance(x, ActionRequest):
        return ("ACT", x.name, tuple(struct(p) for p in x.parameters))
    if isinstance(x, LinkActionParameter):
        return ("LINK", struct(x.link))
    if isinstance(x, StringActionParameter):
        return ("STR", x.string)
    if isinstance(x, ResourceName):
        return ("RES", x.name)
    if isinstance(x, str):
        return ("RAW", x)
    raise Violation(f"unexpected node in parsed query: {type(x)}")


def check_text(text):
    """text must be accepted; its canonical text must re-parse to the same structure
    and re-encode to itself."""
    try:
        q = parse(text)
    except Exception as e:
        raise Violation(f"generated query {text!r} rejected by the parser: {e!r}")
    canonical = q.encode()
    if not isinstance(canonical, str):
        raise Violation(f"{text!r}: encode() returned {type(canonical)}")
    try:
        q2 = parse(canonical)
    except Exception as e:
        raise Violation(
            f"{text!r} canonicalises to {canonical!r} which is rejected: {e!r}"
        )
    s1, s2 = struct(q), struct(q2)
    if s1 != s2:
        raise Violation(
            f"{text!r} canonicalises to {canonical!r} which denotes a different query:\n"
            f"  {s1}\n  {s2}"
        )
    again = q2.encode()
    if again != canonical:
        raise Violation(
            f"{text!r}: canonical text {canonical!r} re-encodes to {again!r}"
        )
    if str(q) != canonical:
        raise Violation(f"{text!r}: str(query) differs from encode()")
    return q, canonical


# ---------------------------------------------------------------- generators

NAMES = ["a", "abc", "ns", "df_x1", "_p", "head"]
PLAIN_ARGS = ["1", "x", "abc", "1.5", "a+b", "Hello", "x_y"]
ENTITY_ARGS = [
    "~~",
    "~_",
    "~1",
    "~.",
    "~I",
    "~/",
    "~H",
    "~h",
    "~f",
    "~P",
    "%20",
    "%7E",
    "%2F",
    "a~.b",
    "~Hexample.com~Ipath",
    "x~_y",
    "~~x~~",
    "a%2Db",
    "",
]
FILENAMES = ["file.txt", "data.csv", "x.tar.gz", "a_b.json", ".hidden", "r-1.html"]
RESOURCE_NAMES = ["abc", "data", "x.csv", "a-b", "_tmp", "v1.0", "dir2"]
HEADER_NAMES = ["", "q", "ns", "abc1"]
RES_HEADER_NAMES = ["", "x", "store1"]


def gen_arg(rnd, depth):
    r = rnd.random()
    if depth > 0 and r < 0.2:
        return "~X~" + gen_query(rnd, depth - 1, link=True) + "~E"
    if r < 0.6:
        return rnd.choice(PLAIN_ARGS)
    return rnd.choice(ENTITY_ARGS)


def gen_action(rnd, depth):
    name = rnd.choice(NAMES)
    args = [gen_arg(rnd, depth) for _ in range(rnd.choice([0, 0, 1, 1, 2, 3]))]
    return "-".join([name] + args)


def gen_action_path(rnd, depth, allow_empty=False):
    n = rnd.choice([0, 1, 1, 2, 3]) if allow_empty else rnd.choice([1, 1, 2, 3])
    parts = [gen_action(rnd, depth) for _ in range(n)]
    if rnd.random() < 0.3 or (n == 0 and not allow_empty):
        parts.append(rnd.choice(FILENAMES))
    return "/".join(parts)


def gen_transform_header(rnd, depth):
    level = rnd.choice([1, 1, 2, 3])
    name = rnd.choice(HEADER_NAMES)
    h = "-" * level + name
    if name != "":
        for _ in range(rnd.choice([0, 0, 1, 2])):
            h += "-" + gen_arg(rnd, depth)
    return h


def gen_transform_segment(rnd, depth):
    h = gen_transform_header(rnd, depth)
    # a nameless header ('-', '--', ...) is only a header when followed by '/'
    nameless = h.strip("-") == ""
    ap = gen_action_path(rnd, depth, allow_empty=not nameless)
    return h + "/" + ap if ap else h


def gen_resource_segment(rnd, depth):
    level = rnd.choice([1, 1, 2, 3])
    h = "-" * level + "R" + rnd.choice(RES_HEADER_NAMES)
    for _ in range(rnd.choice([0, 0, 0, 1, 2])):
        h += "-" + gen_arg(rnd, depth)
    n = rnd.choice([0, 1, 2, 3])
    path = [rnd.choice(RESOURCE_NAMES) for _ in range(n)]
    return "/".join([h] + path)


def gen_query(rnd, depth, link=False):
    segments = []
    nseg = rnd.choice([1, 1, 1, 2, 3])
    for i in range(nseg):
        r = rnd.random()
        if i == 0 and r < 0.45:
            segments.append(gen_action_path(rnd, depth))
        elif r < 0.7:
            segments.append(gen_transform_segment(rnd, depth))
        else:
            segments.append(gen_resource_segment(rnd, depth))
    text = "/".join(segments)
    if rnd.random() < 0.3:
        text = "/" + text
    return text


def gen_resource_transform(rnd, depth):
    n = rnd.choice([1, 2, 3])
    path = "/".join(rnd.choice(RESOURCE_NAMES) for _ in range(n))
    text = path + "/" + gen_transform_segment(rnd, depth)
    if rnd.random() < 0.4:
        text = "/" + text
    return text


# ---------------------------------------------------------------- scenarios


def scenario_literals():
    """Hand-written queries covering every grammar production."""
    texts = [
        "abc",
        "abc/def",
        "abc-1-2/def-x",
        "abc/def/file.txt",
        "file.txt",
        "/abc/def",
        "abc-~~-~_-~1-~.",
        "abc-~Hexample.com~Ipath",
        "abc-~hexample.com",
        "abc-~fa~Ib-x~Py",
        "abc-a%20b-%7E",
        "abc--x",
        "abc-",
        "ns-a-b/abc-1",
        "-R/a/b/c.txt",
        "/-R/a/b/c.txt",
        "-R",
        "-Rx/a/b",
        "--R/a",
        "-R-p1-p2/a/b",
        "-R/a/b/-/abc/def-1",
        "-R/a/b/-/abc/def-1/file.csv",
        "-R/a/b/-q-1/abc",
        "a/b/-/abc",
        "/a/b/-/abc",
        "a/b.csv/-/dr-dataframe/head-10/out.html",
        "a/b/-q/abc",
        "a/b/--/abc",
        "-/abc",
        "-q/abc/def",
        "-q-1-x/abc/def",
        "--q/abc",
        "---/abc/x.txt",
        "-q",
        "abc/-q/def",
        "abc/-R/x/y",
        "abc/-q/def/-Rz/m/n/-/ghi/out.txt",
        "abc-~X~def-1~E",
        "abc-~X~/-R/a/b/-/def~E-2",
        "abc-~X~def-~X~ghi-~X~jkl-1~E~E~E-z",
        "-q-~X~abc~E/def",
        "-R-~X~abc~E/a/b",
        "abc-~X~a/b/-/c~E",
    ]
    for t in texts:
        check_text(t)
    # spellings that are already canonical must be reproduced verbatim
    for t in [
        "abc/def",
        "abc-1-2/def-x/file.txt",
        "-R/a/b/c.txt",
        "/-R/a/b/-/abc/def-1",
        "abc-~X~def-1~E",
        "-q-1/abc",
        "--R/a/-/b",
    ]:
        _, canonical = check_text(t)
        if canonical != t:
            raise Violation(f"canonical query {t!r} encodes to {canonical!r}")
    return len(texts)


def scenario_spellings_share_identity():
    """Different accepted spellings of the same query have the same canonical text
    and that text denotes the same query."""
    groups = [
        ["abc-%20", "abc-~."],
        ["abc-%7E", "abc-~~"],
        ["abc-~I", "abc-~/", "abc-%2F"],
        ["abc-~_1", "abc-~1", "abc-%2D1"],
        ["abc-~H", "abc-https~P", "abc-https%3A~I~I"],
    ]
    n = 0
    for group in groups:
        results = [check_text(t) for t in group]
        canon = {c for _, c in results}
        structs = {struct(q) for q, _ in results}
        if len(canon) != 1 or len(structs) != 1:
            raise Violation(
                f"equivalent spellings {group} canonicalise differently: {sorted(canon)}"
            )
        n += len(group)
    return n


def scenario_exhaustive_short():
    """Bounded-exhaustive: all short combinations of a small alphabet of pieces."""
    heads = ["", "/"]
    first = ["a", "a-1", "a-~_", "a-~X~b~E", "-R/r", "-Rn/r/s.t", "-q", "-q-1", "--", "r/s/-"]
    second = ["", "/b", "/b-~.", "/f.txt", "/b/f.txt", "/-/c", "/-R/z", "/--q-x/c-~X~d-~X~e~E~E"]
    n = 0
    for h, a, b in itertools.product(heads, first, second):
        text = h + a + b
        try:
            parse(text)
        except Exception:
            # not a sentence of the grammar (e.g. bare '--' without '/'): outside the quantifier
            continue
        check_text(text)
        n += 1
    if n < 100:
        raise Violation(f"exhaustive scenario degenerated: only {n} accepted queries")
    return n


def scenario_random(seed, count, depth):
    rnd = random.Random(seed)
    for i in range(count):
        if rnd.random() < 0.2:
            text = gen_resource_transform(rnd, depth)
        else:
            text = gen_query(rnd, depth)
        check_text(text)
    return count


def scenario_cache_identity():
    """The canonical text is the cache/store identity: evaluating two spellings of the
    same query through the public API yields states with the same canonical query
    text, and the cache is keyed by it."""
    from liquer import evaluate
    from liquer.commands import command, first_command, reset_command_registry
    from liquer.cache import MemoryCache, set_cache
    from liquer.store import MemoryStore, set_store, get_store
    from liquer.context import get_context

    tmp = tempfile.mkdtemp(prefix="c02_check_")
    cwd = os.getcwd()
    try:
        os.chdir(tmp)
        reset_command_registry()
        calls = []

        @first_command
        def c02hello(x="w"):
            calls.append(x)
            return f"hello {x}"

        @command
        def c02up(txt):
            return str(txt).upper()

        cache = MemoryCache()
        set_cache(cache)
        set_store(MemoryStore())
        for spelling, other in [
            ("c02hello-a~.b/c02up", "c02hello-a%20b/c02up"),
            ("-/c02hello-x~_y/c02up", "-/c02hello-x%2Dy/c02up"),
        ]:
            canonical = parse(spelling).encode()
            if parse(other).encode() != canonical:
                raise Violation(f"{spelling!r} and {other!r} canonicalise differently")
            before = len(calls)
            s1 = evaluate(spelling)
            s2 = evaluate(other)
            if s1.query != canonical or s2.query != canonical:
                raise Violation(
                    f"state.query {s1.query!r}/{s2.query!r} is not the canonical text {canonical!r}"
                )
            if s1.metadata.get("query") != canonical:
                raise Violation(
                    f"metadata['query'] {s1.metadata.get('query')!r} is not {canonical!r}"
                )
            if s1.get() != s2.get():
                raise Violation("two spellings of one query gave different results")
            if not cache.contains(canonical):
                raise Violation(f"cache is not keyed by canonical text {canonical!r}")
            if len(calls) - before != 1:
                raise Violation(
                    f"second spelling of {canonical!r} was not served from the cache"
                )
            raw, q = get_context().to_query(parse(spelling))
            if raw != canonical or struct(q) != struct(parse(canonical)):
                raise Violation("Context.to_query does not use the canonical text")
        return 2
    finally:
        os.chdir(cwd)
        try:
            from liquer.cache import NoCache, set_cache as _sc

            _sc(NoCache())
        except Exception:
            pass
        shutil.rmtree(tmp, ignore_errors=True)


def main():
    try:
        n = 0
        n += scenario_literals()
        n += scenario_spellings_share_identity()
        n += scenario_exhaustive_short()
        n += scenario_random(seed=20260203, count=1500, depth=1)
        n += scenario_random(seed=7, count=600, depth=3)
        n += scenario_cache_identity()
    except Violation as v:
        print(f"PROPERTY VIOLATED: {v}")
        return 1
    except Exception as e:  # unexpected failure of the library itself
        import traceback

        traceback.print_exc()
        print(f"PROPERTY VIOLATED: unexpected exception {e!r}")
        return 1
    print(f"PROPERTY HOLDS ({n} queries checked)")
    return 0


if __name__ == "__main__":
    sys.exit(main())
