"""Standalone check of property C11: state types serialize/deserialize losslessly.

Run as:  cd <repo root> && /venv/bin/python check.py
"""
import os
import sys

sys.path.insert(0, os.getcwd())

import shutil
import tempfile
import traceback

problems = []


def fail(msg):
    problems.append(msg)


class Point:
    """Arbitrary picklable object (module __main__)."""

    def __init__(self, x, y):
        self.x = x
        self.y = y

    def __eq__(self, other):
        return type(other) is Point and (self.x, self.y) == (other.x, other.y)

    def __repr__(self):
        return f"Point({self.x!r},{self.y!r})"


def main():
    from liquer.state_types import (
        encode_state_data,
        decode_state_data,
        copy_state_data,
        type_identifier_of,
        state_types_registry,
        state_type_from_type_identifier,
    )
    from liquer.constants import mimetype_from_extension

    have_pandas = True
    try:
        import pandas as pd
        import numpy as np
        import liquer.ext.lq_pandas  # registers the dataframe state type
    except Exception:
        have_pandas = False

    def same(a, b):
        if have_pandas and isinstance(a, pd.DataFrame):
            if not isinstance(b, pd.DataFrame):
                return False
            try:
                pd.testing.assert_frame_equal(a, b, check_exact=True)
                return True
            except AssertionError:
                return False
        if isinstance(a, dict) and isinstance(b, dict):
            if list(a.keys()) != list(b.keys()):
                return False
            return all(same(a[k], b[k]) for k in a)
        if isinstance(a, (list, tuple)) and type(a) is type(b):
            return len(a) == len(b) and all(same(x, y) for x, y in zip(a, b))
        return type(a) is type(b) and a == b

    def roundtrip(label, value, extension, expect_type_id, expect_mime=None):
        try:
            b, mime, tid = encode_state_data(value, extension=extension)
        except Exception:
            fail(f"{label}: encode raised {traceback.format_exc(limit=1)}")
            return None
        if not isinstance(b, bytes):
            fail(f"{label}: encoded form is {type(b)}, not bytes")
        if tid != expect_type_id:
            fail(f"{label}: type identifier {tid!r}, expected {expect_type_id!r}")
        if tid != type_identifier_of(value):
            fail(f"{label}: type identifier differs from type_identifier_of")
        if expect_mime is not None and mime != expect_mime:
            fail(f"{label}: mime {mime!r}, expected {expect_mime!r}")
        st = state_types_registry().get(tid)
        if st is None or st.identifier() != tid:
            fail(f"{label}: type identifier {tid!r} does not select a state type")
        st2 = state_type_from_type_identifier(tid)
        if st2 is not None and st2.identifier() != tid:
            fail(f"{label}: registry lookup by identifier inconsistent")
        try:
            back = decode_state_data(b, tid, extension=extension)
        except Exception:
            fail(f"{label}: decode raised {traceback.format_exc(limit=1)}")
            return b
        if not same(value, back):
            fail(f"{label}: round trip gave {back!r} instead of {value!r}")
        # determinism: encoding again gives identical bytes for text formats
        return b

    # ---- bytes ---------------------------------------------------------
    for i, v in enumerate([b"", b"\x00\xff\n\r binary", bytes(range(256))]):
        for ext in (None, "b", "bin", "txt"):
            roundtrip(f"bytes#{i}/{ext}", v, ext, "bytes")
        b, mime, tid = encode_state_data(v)
        if b != v:
            fail(f"bytes#{i}: encoded bytes differ from the value")

    # ---- text ----------------------------------------------------------
    for i, v in enumerate(["", "hello", "multi\nline\r\n\ttext", "žluťoučký ☃ \U0001F600"]):
        for ext in (None, "txt", "html", "json", "md", "unknownext"):
            roundtrip(f"text#{i}/{ext}", v, ext, "text")
    b, mime, tid = encode_state_data("abc")
    if (b, mime, tid) != (b"abc", "text/plain", "text"):
        fail(f"text default encoding unexpected: {(b, mime, tid)!r}")
    b, mime, tid = encode_state_data("abc", extension="html")
    if mime != mimetype_from_extension("html", "text/plain"):
        fail(f"text html mime unexpected: {mime!r}")
    b, mime, tid = encode_state_data("abc", extension="unknownext")
    if mime != "text/plain":
        fail(f"text unknown-extension mime unexpected: {mime!r}")

    # ---- None / int / float (generic json) ------------------------------
    for i, v in enumerate([None, 0, -17, 2 ** 70, 0.0, -1.5, 1e300, 3.141592653589793]):
        for ext in (None, "json"):
            roundtrip(f"generic#{i}/{ext}", v, ext, "generic", "application/json")
    b, mime, tid = encode_state_data(123)
    if (b, mime, tid) != (b"123", "application/json", "generic"):
        fail(f"int default encoding unexpected: {(b, mime, tid)!r}")
    b, mime, tid = encode_state_data(5, extension="html")
    if (b, mime) != (b"<pre>5</pre>", mimetype_from_extension("html")):
        fail(f"generic html encoding unexpected: {(b, mime)!r}")
    try:
        encode_state_data(5, extension="xyz")
        fail("generic: unsupported extension did not raise")
    except Exception as e:
        if str(e) != "Unsupported file extension: xyz":
            fail(f"generic: unexpected exception text {e!r}")
    try:
        decode_state_data(b"5", "generic", extension="html")
        fail("generic: decoding html did not raise")
    except AssertionError:
        pass
    except Exception as e:
        fail(f"generic: decoding html raised {type(e).__name__} not AssertionError")

    # ---- dictionaries ---------------------------------------------------
    json_dicts = [
        {},
        {"a": 1},
        {"": None, " ": "", "a b": 1.5, 'quo"te': "x", "back\\slash": [1, 2, {"n": None}],
         "new\nline": {"nested": {"deep": [True, False, None]}}, "uni☃": "ž",
         "a:b,c": "{[,:]}", "x" * 40: "long key"},
    ]
    for i, v in enumerate(json_dicts):
        for ext in (None, "json", "djson"):
            roundtrip(f"dict#{i}/{ext}", v, ext, "dictionary",
                      mimetype_from_extension("json" if ext is None else ext))
    b, mime, tid = encode_state_data({"a": 1, "b": [1, "x"]})
    if b != b'{"a": 1, "b": [1, "x"]}':
        fail(f"dict json encoding unexpected: {b!r}")
    b, mime, tid = encode_state_data({}, extension="djson")
    if b != b"{\n\n}":
        fail(f"empty dict djson encoding unexpected: {b!r}")
    b, mime, tid = encode_state_data({"a": 1, "bb": "x", "c": None, "d": 1.5}, extension="djson")
    expected = ('{\n%-20s1,\n%-20s"x",\n%-20snull,\n%-20s1.5\n}' % ('"a":', '"bb":', '"c":', '"d":')).encode("utf-8")
    if b != expected:
        fail(f"dict djson encoding unexpected: {b!r} != {expected!r}")
    b, mime, tid = encode_state_data({"k": b"\x00\x01"}, extension="djson")
    expected = ('{\n%-20s[%-10s, %-4s, "%s"]\n}' % ('"k":', '"bytes"', '"b"', "AAE=")).encode("utf-8")
    if b != expected:
        fail(f"dict djson bytes-member encoding unexpected: {b!r} != {expected!r}")

    # djson with non-JSON members (arbitrary picklable objects etc.)
    rich = {
        "bytes": b"\x00\x01\xfe\xff",
        "empty bytes": b"",
        "text": "plain",
        "empty": "",
        "none": None,
        "int": 7,
        "float": 2.5,
        "object": Point(1, "two"),
        "tuple": (1, 2, 3),
        "set": {1, 2, 3},
        "list": [1, "a", None, 2.5],
        "inner dict": {"x": 1, "y": {"z": [1, 2]}},
        'we"ird\nkey: ,': Point(None, [1, 2]),
    }
    if have_pandas:
        rich["frame"] = pd.DataFrame(dict(a=[1, 2, 3], b=["x", "y", None], c=[1.5, float("nan"), -2.0]))
    roundtrip("dict-rich/djson", rich, "djson", "dictionary", mimetype_from_extension("djson"))
    try:
        encode_state_data({1: "a"}, extension="djson")
        fail("djson: non-string key did not raise AssertionError")
    except AssertionError:
        pass
    except Exception as e:
        fail(f"djson: non-string key raised {type(e).__name__}")
    try:
        encode_state_data({"a": 1}, extension="xml")
        fail("dictionary: unsupported extension did not raise")
    except Exception as e:
        if str(e) != "Unsupported file extension: xml":
            fail(f"dictionary: unexpected exception text {e!r}")
    if decode_state_data(b"{}", "dictionary", extension="xml") is not None:
        fail("dictionary: decoding unsupported extension should return None (as today)")

    # ---- pickle (default state type) -------------------------------------
    pickles = [Point(1, 2), (1, "a", None), [1, [2, [3]]], {1, 2}, True, frozenset({"a"}), 1 + 2j,
               [Point(0, 0), {"k": Point(1, 1)}]]
    for i, v in enumerate(pickles):
        for ext in (None, "pickle", "pkl"):
            roundtrip(f"pickle#{i}/{ext}", v, ext, "pickle", mimetype_from_extension("pickle"))
    for i, v in enumerate([[1, 2, {"a": None}], True, [], ["x", 1.5]]):
        roundtrip(f"pickle-json#{i}", v, "json", "pickle", mimetype_from_extension("json"))
    b, mime, tid = encode_state_data([1, 2], extension="html")
    if (b, mime, tid) != (b"<pre>[1, 2]</pre>", mimetype_from_extension("html"), "pickle"):
        fail(f"pickle html encoding unexpected: {(b, mime, tid)!r}")
    for f, args in ((encode_state_data, ([1], "xyz")), (decode_state_data, (b"x", "pickle", "xyz"))):
        try:
            f(*args)
            fail("pickle: unsupported extension did not raise")
        except Exception as e:
            if str(e) != "Unsupported file extension: xyz":
                fail(f"pickle: unexpected exception text {e!r}")
    # unknown type identifier falls back to the default (pickle) state type
    import pickle as _pickle
    if decode_state_data(_pickle.dumps(Point(3, 4)), "no-such-type") != Point(3, 4):
        fail("unknown type identifier does not fall back to pickle")

    # ---- data frames -----------------------------------------------------
    if have_pandas:
        frames = [
            pd.DataFrame(dict(a=[1, 2, 3], b=["x", "y", "z"], c=[1.5, 2.5, -3.25], d=[True, False, True])),
            pd.DataFrame(dict(a=[1.0, float("nan")], b=["", None])),
            pd.DataFrame(dict(a=pd.Series([], dtype="int64"), b=pd.Series([], dtype="float64"))),
            pd.DataFrame({"col with space": [1], 'q"uote': ["☃"], "t": pd.to_datetime(["2020-01-02 03:04:05"])}),
        ]
        lossless = [None, "pickle", "pkl"]
        try:
            import pyarrow  # noqa: F401

            lossless += ["parquet", "feather"]
        except Exception:
            pass
        for i, df in enumerate(frames):
            for ext in lossless:
                roundtrip(f"frame#{i}/{ext}", df, ext, "dataframe",
                          mimetype_from_extension("pickle" if ext is None else ext))
        simple = pd.DataFrame(dict(a=[1, 2, 3], b=["x", "y", "z"], c=[1.5, 2.5, -3.25]))
        for ext in ("csv", "tsv", "json"):
            roundtrip(f"frame-simple/{ext}", simple, ext, "dataframe", mimetype_from_extension(ext))
        b, mime, tid = encode_state_data(simple, extension="csv")
        if b.decode("utf-8").split() != ["a,b,c", "1,x,1.5", "2,y,2.5", "3,z,-3.25"]:
            fail(f"frame csv encoding unexpected: {b!r}")
        b, mime, tid = encode_state_data(simple, extension="tsv")
        if b.decode("utf-8").splitlines() != ["a\tb\tc", "1\tx\t1.5", "2\ty\t2.5", "3\tz\t-3.25"]:
            fail(f"frame tsv encoding unexpected: {b!r}")
        b, mime, tid = encode_state_data(simple, extension="html")
        if not b.decode("utf-8").lstrip().startswith("<table") or mime != mimetype_from_extension("html"):
            fail("frame html encoding unexpected")
        for f, args, text in (
            (encode_state_data, (simple, "xyz"),
             "Serialization: file extension xyz is not supported by dataframe type."),
            (decode_state_data, (b"x", "dataframe", "xyz"),
             "Deserialization: file extension xyz is not supported by dataframe type."),
        ):
            try:
                f(*args)
                fail("dataframe: unsupported extension did not raise")
            except Exception as e:
                if str(e) != text:
                    fail(f"dataframe: unexpected exception text {e!r}")
        # a second encode after the first must still work (streams are not shared)
        b1 = encode_state_data(simple)[0]
        b2 = encode_state_data(simple)[0]
        if not same(decode_state_data(b1, "dataframe"), decode_state_data(b2, "dataframe")):
            fail("dataframe: repeated encoding differs")

    # ---- copy ------------------------------------------------------------
    inner = [1, 2]
    d = {"a": inner, "b": {"c": inner}}
    c = copy_state_data(d)
    if not same(c, d) or c is d or c["a"] is inner or c["b"] is d["b"]:
        fail("copy of a dictionary shares structure or differs")
    c["a"].append(3)
    c["b"]["new"] = 1
    if d != {"a": [1, 2], "b": {"c": [1, 2]}}:
        fail("mutating a dictionary copy changed the original")
    lst = [[1], {"k": [2]}]
    c = copy_state_data(lst)
    if c != lst or c is lst or c[0] is lst[0] or c[1]["k"] is lst[1]["k"]:
        fail("copy of a list (pickle type) shares structure or differs")
    p = Point([1], {"k": 1})
    c = copy_state_data(p)
    if c != p or c is p or c.x is p.x or c.y is p.y:
        fail("copy of an object shares structure or differs")
    for v in ("text", "", b"bytes", b"", None, 5, 2.5):
        c = copy_state_data(v)
        if not same(c, v):
            fail(f"copy of {v!r} gave {c!r}")
    if have_pandas:
        df = pd.DataFrame(dict(a=[1, 2, 3], b=["x", "y", "z"]))
        c = copy_state_data(df)
        if not same(c, df) or c is df:
            fail("copy of a data frame differs")
        c.loc[0, "a"] = 100
        c["new"] = 1
        if list(df.a) != [1, 2, 3] or list(df.columns) != ["a", "b"]:
            fail("mutating a data frame copy changed the original")

    # ---- through a store / cache in a temporary directory ----------------
    tmp = tempfile.mkdtemp(prefix="c11_check_")
    try:
        from liquer.store import FileStore
        from liquer.cache import FileCache
        from liquer.state import State

        store = FileStore(os.path.join(tmp, "store"))
        values = {"d.json": {"a": [1, None], "k y": "v"}, "t.txt": "text ☃", "o.pickle": Point(1, [2]),
                  "b.b": b"\x00\xff"}
        if have_pandas:
            values["f.pickle"] = pd.DataFrame(dict(a=[1, 2], b=["x", None]))
        for name, v in values.items():
            ext = name.split(".")[-1]
            b, mime, tid = encode_state_data(v, extension=ext)
            store.store(name, b, dict(type_identifier=tid, mimetype=mime))
        for name, v in values.items():
            ext = name.split(".")[-1]
            b, metadata = store.get_bytes(name), store.get_metadata(name)
            back = decode_state_data(b, metadata["type_identifier"], extension=ext)
            if not same(v, back):
                fail(f"store round trip of {name} gave {back!r}")

        cache = FileCache(os.path.join(tmp, "cache"))
        for i, v in enumerate(values.values()):
            state = State().with_data(v)
            state.query = f"q{i}"
            state.metadata["query"] = f"q{i}"
            if not cache.store(state):
                fail(f"cache refused to store value #{i}")
                continue
            got = cache.get(f"q{i}")
            if got is None:
                fail(f"cache lost value #{i}")
            elif not same(v, got.get()):
                fail(f"cache round trip of value #{i} gave {got.get()!r}")
    except Exception:
        fail("store/cache scenario raised: " + traceback.format_exc())
    finally:
        shutil.rmtree(tmp, ignore_errors=True)


if __name__ == "__main__":
    try:
        main()
    except Exception:
        problems.append("unexpected exception: " + traceback.format_exc())
    if problems:
        print("PROPERTY VIOLATED: " + "; ".join(problems[:10]))
        sys.exit(1)
    print("PROPERTY HOLDS")
    sys.exit(0)
