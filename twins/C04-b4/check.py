"""Check of property C04 (cache transparency) through the public API.

Run as:  cd <repo root> && /venv/bin/python check.py
Exit 0 and print "PROPERTY HOLDS" when the outcome of every evaluated query is
the same without a cache and with every tried cache / warm-up history;
exit 1 and print "PROPERTY VIOLATED: ..." otherwise.
"""
import contextlib
import io
import os
import shutil
import sys
import tempfile
import traceback

sys.path.insert(0, os.getcwd())

from liquer import evaluate, command, first_command  # noqa: E402
from liquer.commands import reset_command_registry  # noqa: E402
from liquer.context import get_context  # noqa: E402
from liquer.cache import (  # noqa: E402
    NoCache,
    MemoryCache,
    FileCache,
    XORFileCache,
    SQLCache,
    SQLStringCache,
    StoreCache,
    CacheProxy,
    set_cache,
)
from liquer.store import MemoryStore, FileStore, set_store  # noqa: E402

CALLS = {}


def count(name):
    CALLS[name] = CALLS.get(name, 0) + 1


def register_commands():
    reset_command_registry()
    import importlib

    # (re-)importing the module registers let / state_variable / flag
    if "liquer.ext.basic" in sys.modules:
        importlib.reload(sys.modules["liquer.ext.basic"])
    else:
        importlib.import_module("liquer.ext.basic")

    @first_command
    def hello():
        count("hello")
        return "Hello"

    @command
    def greet(x, name="world"):
        count("greet")
        return f"{x}, {name}!"

    @command
    def upper(x):
        count("upper")
        return str(x).upper()

    @first_command
    def boom():
        raise Exception("boom failed")

    @command
    def boom2(x):
        raise Exception("boom2 failed")

    @first_command(volatile=True)
    def vol():
        return "volatile value"

    @command
    def nocache(x, context=None):
        context.disable_cache()
        return f"{x} (uncached)"

    @first_command
    def lst():
        count("lst")
        return [1, 2]

    @command
    def append(x, v=0):
        x.append(int(v))
        return x

    @first_command
    def num(x=1):
        return int(x)

    @command
    def add(x, y=1):
        return int(x) + int(y)


QUERIES = [
    "hello",
    "hello/greet",
    "hello/greet-everybody",
    "hello/greet-everybody/upper/out.txt",
    "hello/let-a-1/greet/state_variable-a",
    "hello/let-a-1/greet",
    "hello/flag-f/greet-x",
    "boom/greet",
    "hello/greet/boom2",
    "hello/greet/boom2/upper",
    "vol",
    "vol/greet",
    "hello/nocache",
    "hello/nocache/greet",
    "lst",
    "lst/append-3",
    "lst/append-3/append-4",
    "lst/append-3/append-4/data.json",
    "num-2/add-3",
    "num-2/add-3/add",
]


REMOVAL_QUERIES = [
    "hello/greet-everybody/upper/out.txt",
    "hello/let-a-1/greet/state_variable-a",
    "hello/greet/boom2/upper",
    "vol/greet",
    "hello/nocache/greet",
    "lst/append-3/append-4/data.json",
    "num-2/add-3/add",
]


def fingerprint(state):
    """Observable outcome of an evaluation."""
    if state.is_error:
        try:
            state.get()
            value = ("no exception",)
        except Exception as e:
            value = ("error", type(e).__name__, state.metadata.get("message"))
    else:
        value = ("value", type(state.get()).__name__, repr(state.get()))
    return dict(
        query=state.query,
        value=value,
        is_error=bool(state.is_error),
        volatile=bool(state.is_volatile()),
        vars=repr(sorted(state.vars.items())),
        filename=state.metadata.get("filename"),
        extension=state.metadata.get("extension"),
        type_identifier=state.metadata.get("type_identifier"),
    )


def quiet(f, *args, **kwargs):
    out = io.StringIO()
    with contextlib.redirect_stdout(out), contextlib.redirect_stderr(out):
        return f(*args, **kwargs)


def ev(q):
    return quiet(lambda: fingerprint(evaluate(q)))


class Violation(Exception):
    pass


def expect(reference, q, where):
    got = ev(q)
    if got != reference[q]:
        diff = {
            k: (reference[q][k], got[k]) for k in got if got[k] != reference[q][k]
        }
        raise Violation(f"{where}: query {q!r} differs (uncached, cached): {diff}")


def prefixes(q):
    parts = q.split("/")
    return ["/".join(parts[:i]) for i in range(1, len(parts) + 1)]


def cache_factories(tmp):
    def d(name):
        return os.path.join(tmp, name)

    factories = [
        ("MemoryCache", lambda: MemoryCache()),
        ("FileCache", lambda: FileCache(d("file"))),
        ("XORFileCache", lambda: XORFileCache(d("xor"), b"**secret**")),
        ("SQLCache", lambda: SQLCache.from_sqlite()),
        ("SQLStringCache", lambda: SQLStringCache.from_sqlite()),
        ("StoreCache/memory/nested", lambda: StoreCache(MemoryStore(), "cache")),
        (
            "StoreCache/memory/flat",
            lambda: StoreCache(MemoryStore(), "cache", flat=True),
        ),
        ("StoreCache/file/nested", lambda: StoreCache(FileStore(d("st1")), "cache")),
        (
            "StoreCache/file/flat",
            lambda: StoreCache(FileStore(d("st2")), "cache", flat=True),
        ),
        (
            "Memory.if_attribute_equal",
            lambda: MemoryCache().if_attribute_equal("volatile", False),
        ),
        ("Memory.if_contains", lambda: MemoryCache().if_contains("nothing")),
        ("Memory.if_not_contains", lambda: MemoryCache().if_not_contains("nothing")),
        ("Memory+File", lambda: MemoryCache() + FileCache(d("combo"))),
        (
            "conditional+File",
            lambda: MemoryCache().if_contains("nothing") + FileCache(d("combo2")),
        ),
        ("CacheProxy(Memory)", lambda: CacheProxy(MemoryCache())),
    ]
    try:
        from cryptography.fernet import Fernet
        from liquer.cache import FernetFileCache

        key = Fernet.generate_key()
        factories.append(
            ("FernetFileCache", lambda: FernetFileCache(d("fernet"), key))
        )
    except ImportError:
        pass
    return factories


def run_histories(name, factory, reference):
    # History 1: cold cache, every query once, then again (warm).
    cache = quiet(factory)
    quiet(cache.clean)
    set_cache(cache)
    for q in QUERIES:
        expect(reference, q, f"{name} cold")
    for q in reversed(QUERIES):
        expect(reference, q, f"{name} warm (reverse order)")

    # History 2: removals of prefixes / the query itself, then re-evaluation.
    for q in REMOVAL_QUERIES:
        for p in prefixes(q):
            quiet(cache.remove, p)
            expect(reference, q, f"{name} after remove({p!r})")
    for q in QUERIES:
        quiet(cache.remove, q)
    for q in QUERIES:
        expect(reference, q, f"{name} after removing all full queries")

    # History 3: clean, then longest queries first (prefixes get cached by recursion).
    quiet(cache.clean)
    for q in sorted(QUERIES, key=len, reverse=True):
        expect(reference, q, f"{name} after clean, longest first")
    for q in QUERIES:
        expect(reference, q, f"{name} after clean, second pass")

    # History 4: evaluations with injected input value / extra parameters
    # must not poison the cache for the plain query.
    quiet(cache.clean)
    s = quiet(get_context().evaluate_on, "Injected", "greet")
    if s.get() != "Injected, world!":
        raise Violation(f"{name}: evaluate_on gave {s.get()!r}")
    s = quiet(evaluate, "hello/greet", extra_parameters=["params"])
    if s.get() != "Hello, params!":
        raise Violation(f"{name}: extra_parameters gave {s.get()!r}")
    s = quiet(get_context().evaluate, "hello/greet", input_value="Other")
    for q in ("hello/greet", "hello", "hello/greet-everybody"):
        expect(reference, q, f"{name} after input-value/extra-parameter history")
    s = quiet(evaluate, "hello/greet", extra_parameters=["again"])
    if s.get() != "Hello, again!":
        raise Violation(f"{name}: warm extra_parameters gave {s.get()!r}")
    expect(reference, "hello/greet", f"{name} after warm extra-parameter evaluation")

    # In-place mutation of a returned value must not leak into later results.
    s = quiet(evaluate, "lst/append-3")
    try:
        s.get().append(99)
    except Exception:
        pass
    expect(reference, "lst/append-3", f"{name} after mutating a returned value")
    expect(reference, "lst/append-3/append-4", f"{name} after mutating a returned value")
    quiet(cache.clean)


def main():
    tmp = tempfile.mkdtemp(prefix="c04check_")
    try:
        set_store(MemoryStore())
        register_commands()

        set_cache(NoCache())
        reference = {q: ev(q) for q in QUERIES}
        # uncached evaluation itself must be repeatable
        for q in QUERIES:
            expect(reference, q, "NoCache repeat")
        set_cache(None)
        for q in QUERIES:
            expect(reference, q, "default cache")

        # sanity of the scenario set
        assert reference["hello/greet-everybody/upper/out.txt"]["value"][2] == repr(
            "HELLO, EVERYBODY!"
        )
        assert reference["boom/greet"]["is_error"]
        assert reference["hello/greet/boom2/upper"]["is_error"]
        assert reference["vol/greet"]["volatile"]
        assert reference["lst/append-3/append-4"]["value"][2] == "[1, 2, 3, 4]"

        for name, factory in cache_factories(tmp):
            run_histories(name, factory, reference)

        # A cache really is used (work is saved), otherwise the check is vacuous.
        cache = MemoryCache()
        set_cache(cache)
        ev("hello/greet-everybody/upper")
        before = dict(CALLS)
        ev("hello/greet-everybody/upper")
        ev("hello/greet-everybody")
        if CALLS != before:
            raise Violation("MemoryCache did not serve a repeated evaluation")
        if not cache.contains("hello/greet-everybody"):
            raise Violation("predecessor evaluation did not use the same cache")
    except Violation as e:
        print(f"PROPERTY VIOLATED: {e}")
        return 1
    except Exception as e:
        traceback.print_exc()
        print(f"PROPERTY VIOLATED: unexpected exception {type(e).__name__}: {e}")
        return 1
    finally:
        set_cache(None)
        set_store(None)
        try:
            reset_command_registry()
        except Exception:
            pass
        shutil.rmtree(tmp, ignore_errors=True)
    print("PROPERTY HOLDS")
    return 0


if __name__ == "__main__":
    sys.exit(main())
