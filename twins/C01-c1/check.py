"""Check of property C01: a query means left-to-right function composition.

Run as:  cd <repo root> && /venv/bin/python check.py
Evaluates a set of queries over a fixed command vocabulary with the library and
compares value, state variables and last recorded command with a direct
reference interpretation of the parsed query.
"""
import os
import sys

sys.path.insert(0, os.getcwd())

import contextlib
import io
import shutil
import tempfile


def main():
    from liquer.commands import reset_command_registry, command, first_command
    from liquer.parser import (
        parse,
        StringActionParameter,
        LinkActionParameter,
        TransformQuerySegment,
    )
    from liquer.cache import NoCache, MemoryCache, set_cache
    from liquer.context import get_context
    from liquer.store import set_store, MemoryStore
    from liquer.state import State

    set_store(MemoryStore())
    reset_command_registry()
    calls = []

    # ---------------- vocabulary (library side) ----------------
    @first_command
    def val(x: int = 7):
        calls.append(("val", x))
        return x

    @first_command
    def txt(s="dflt"):
        calls.append(("txt", s))
        return s

    @command
    def add(x, y: int = 1):
        calls.append(("add", x, y))
        return x + y

    @command(ns="alt")
    def add(x, y: int = 1):
        calls.append(("alt.add", x, y))
        return x + 100 * y

    @command
    def scale(x, f: float = 2.0, neg: bool = False):
        calls.append(("scale", x, f, neg))
        return -(x * f) if neg else x * f

    @command
    def cat(x, sep="|", *parts):
        calls.append(("cat", x, sep, tuple(parts)))
        return sep.join([str(x)] + [str(p) for p in parts])

    @command
    def tag(state, label="t"):
        calls.append(("tag", state.get(), label))
        return state.with_data(f"{state.get()}#{label}")

    @command
    def ctx(x, suffix="c", context=None):
        calls.append(("ctx", x, suffix, context is not None))
        return f"{x}{suffix}"

    @command
    def setv(state, name, value):
        calls.append(("setv", name, value))
        state.vars[name] = value
        return state

    @command
    def getv(state, name, fallback="none"):
        calls.append(("getv", name, fallback))
        return state.with_data(state.vars.get(name, fallback))

    @command
    def usens(state, *namespaces):
        calls.append(("usens", tuple(namespaces)))
        namespaces = list(namespaces)
        if "root" not in namespaces:
            namespaces.append("root")
        state.vars["active_namespaces"] = namespaces
        return state

    # ---------------- reference interpretation ----------------
    BOOL = dict(y=True, yes=True, n=False, no=False, t=True, true=True, f=False, false=False)

    def to_bool(v):
        return BOOL.get(str(v).lower(), False)

    def ident(v):
        return v

    # name -> (namespace -> (is_first, [(argname, converter, default or REQUIRED)], variadic, function(data, vars, argv, rest)))
    REQUIRED = object()

    def r_val(data, vars_, a, rest):
        return a[0]

    def r_txt(data, vars_, a, rest):
        return a[0]

    def r_add(data, vars_, a, rest):
        return data + a[0]

    def r_alt_add(data, vars_, a, rest):
        return data + 100 * a[0]

    def r_scale(data, vars_, a, rest):
        return -(data * a[0]) if a[1] else data * a[0]

    def r_cat(data, vars_, a, rest):
        return a[0].join([str(data)] + [str(p) for p in rest])

    def r_tag(data, vars_, a, rest):
        return f"{data}#{a[0]}"

    def r_ctx(data, vars_, a, rest):
        return f"{data}{a[0]}"

    def r_setv(data, vars_, a, rest):
        vars_[a[0]] = a[1]
        return data

    def r_getv(data, vars_, a, rest):
        return vars_.get(a[0], a[1])

    def r_usens(data, vars_, a, rest):
        namespaces = list(rest)
        if "root" not in namespaces:
            namespaces.append("root")
        vars_["active_namespaces"] = namespaces
        return data

    VOCABULARY = {
        "root": {
            "val": ([("x", int, 7)], False, r_val),
            "txt": ([("s", ident, "dflt")], False, r_txt),
            "add": ([("y", int, 1)], False, r_add),
            "scale": ([("f", float, 2.0), ("neg", to_bool, False)], False, r_scale),
            "cat": ([("sep", ident, "|")], True, r_cat),
            "tag": ([("label", ident, "t")], False, r_tag),
            "ctx": ([("suffix", ident, "c")], False, r_ctx),
            "setv": ([("name", ident, REQUIRED), ("value", ident, REQUIRED)], False, r_setv),
            "getv": ([("name", ident, REQUIRED), ("fallback", ident, "none")], False, r_getv),
            "usens": ([], True, r_usens),
        },
        "alt": {"add": ([("y", int, 1)], False, r_alt_add)},
    }

    class RefError(Exception):
        pass

    def actions_of(query):
        """Flatten a parsed transformation query to (actions, filename)."""
        actions = []
        filename = None
        for segment in query.segments:
            if not isinstance(segment, TransformQuerySegment):
                raise RefError("only transformation queries are interpreted")
            actions.extend(segment.query)
            if segment.filename is not None:
                filename = segment.filename
        return actions, filename

    def filename_text(filename):
        if filename is None:
            return None
        return filename if isinstance(filename, str) else filename.encode()

    def ref_run(actions, input_value=None, extra=None):
        """Reference: left-to-right composition. Returns (data, vars, last_command)."""
        data = input_value
        vars_ = {}
        last = None
        for index, action in enumerate(actions):
            is_last = index == len(actions) - 1
            entry = None
            for ns in vars_.get("active_namespaces", ["root"]):
                if action.name in VOCABULARY.get(ns, {}):
                    entry = VOCABULARY[ns][action.name]
                    break
            if entry is None:
                raise RefError(f"unknown command {action.name}")
            spec, variadic, function = entry
            raw = []
            for p in action.parameters:
                if isinstance(p, StringActionParameter):
                    raw.append(p.string)
                elif isinstance(p, LinkActionParameter):
                    link_actions, _ = actions_of(p.link)
                    if p.link.absolute:
                        raw.append(ref_run(link_actions)[0])
                    else:
                        raw.append(ref_run(list(actions[:index]) + link_actions)[0])
                else:
                    raise RefError("unexpected parameter kind")
            keyword = {}
            if is_last and extra:
                if isinstance(extra, list):
                    raw.extend(extra)
                else:
                    keyword = dict(extra)
            argv = []
            for i, (name, convert, default) in enumerate(spec):
                if i < len(raw):
                    argv.append(convert(raw[i]))
                elif name in keyword:
                    argv.append(convert(keyword[name]))
                elif default is REQUIRED:
                    raise RefError(f"missing argument {name}")
                else:
                    argv.append(convert(default))
            rest = raw[len(spec):]
            if rest and not variadic:
                raise RefError("too many arguments")
            data = function(data, vars_, argv, rest)
            last = [action.name] + [
                p.string if isinstance(p, StringActionParameter) else "~X~" + p.link.encode() + "~E"
                for p in action.parameters
            ]
        return data, vars_, last

    # ---------------- scenarios ----------------
    # (query, input_value (or NOINPUT), extra_parameters)
    NOINPUT = object()
    scenarios = [
        ("val", NOINPUT, None),
        ("val-3", NOINPUT, None),
        ("val-3/add", NOINPUT, None),
        ("val-3/add-4", NOINPUT, None),
        ("val-3/add-4/scale", NOINPUT, None),
        ("val-3/add-4/scale-1.5", NOINPUT, None),
        ("val-3/add-4/scale-1.5-yes", NOINPUT, None),
        ("val-3/scale-3-f/add-2", NOINPUT, None),
        ("val-~_5/add-~_2", NOINPUT, None),
        ("txt", NOINPUT, None),
        ("txt-abc/cat", NOINPUT, None),
        ("txt-abc/cat-+", NOINPUT, None),
        ("txt-abc/cat-+-x-y-z", NOINPUT, None),
        ("txt-abc/cat-~_-x~.y-~~z-a~_b~/c", NOINPUT, None),
        ("txt-abc/cat--x--y", NOINPUT, None),
        ("txt-/cat", NOINPUT, None),
        ("txt-a~_b/tag", NOINPUT, None),
        ("txt-a/tag-L/ctx", NOINPUT, None),
        ("txt-a/tag-L/ctx-S/tag", NOINPUT, None),
        ("val-1/setv-k-v1/add-1/getv-k", NOINPUT, None),
        ("val-1/setv-k-v1/setv-k-v2/getv-k", NOINPUT, None),
        ("val-1/setv-k-v1/add-5", NOINPUT, None),
        ("val-1/getv-missing", NOINPUT, None),
        ("val-1/getv-missing-fb", NOINPUT, None),
        ("val-1/add-2/usens-alt/add-2", NOINPUT, None),
        ("val-1/usens-alt/add/scale-2", NOINPUT, None),
        ("val-1/usens-alt/setv-q-w/add-3", NOINPUT, None),
        ("val-1/usens-alt-root/add-3/usens/add-3", NOINPUT, None),
        # absolute links
        ("val-1/add-~X~/val-20~E", NOINPUT, None),
        ("val-1/add-~X~/val-20/add-5~E/scale-2", NOINPUT, None),
        ("txt-a/cat-+-~X~/val-2~E-b-~X~/txt-q/tag~E", NOINPUT, None),
        ("val-1/add-~X~/val-2/add-~X~/val-3/add-~X~/val-4~E~E~E", NOINPUT, None),
        ("val-~X~/val-9~E", NOINPUT, None),
        # relative links
        ("val-1/add-~X~add-2~E", NOINPUT, None),
        ("val-1/add-2/add-~X~add-10~E", NOINPUT, None),
        ("val-1/add-2/scale-3/add-~X~add-10/scale-2~E", NOINPUT, None),
        ("val-2/add-1/add-~X~add-~X~add-5~E~E", NOINPUT, None),
        ("val-2/add-1/add-~X~add-~X~/val-30~E/add-~X~add-1~E~E", NOINPUT, None),
        ("val-2/usens-alt/add-~X~add-1~E", NOINPUT, None),
        ("txt-a/tag-b/cat-+-~X~tag-c~E-~X~/val~E-d", NOINPUT, None),
        # trailing file name only labels the result
        ("val-3/add-4/result.txt", NOINPUT, None),
        ("txt-a/tag/cat-+-z/out.json", NOINPUT, None),
        # injected input value
        ("add-4", 10, None),
        ("add", 10, None),
        ("add-4/scale-2-t", 10, None),
        ("tag-q/cat-+-r", "in", None),
        ("setv-a-b/getv-a", "in", None),
        ("cat", None, None),
        # extra parameters (positional / keyword) go to the last action
        ("val-3/add", NOINPUT, [5]),
        ("val-3/add-1/scale", NOINPUT, [4.0, "y"]),
        ("val-3/add-1/scale-3", NOINPUT, ["yes"]),
        ("val-3/add-1/scale", NOINPUT, {"neg": True}),
        ("val-3/add-1/scale", NOINPUT, {"f": 5, "neg": "t"}),
        ("txt-a/cat-+", NOINPUT, ["u", "v"]),
        ("add", 1, [41]),
        ("add/scale", 1, {"f": 10.0}),
    ]

    failures = []

    def library_eval(query, input_value, extra):
        context = get_context()
        kwargs = {}
        if extra is not None:
            kwargs["extra_parameters"] = extra
        if input_value is not NOINPUT:
            kwargs["input_value"] = input_value
            kwargs["input_value_specified"] = True
        sink = io.StringIO()
        with contextlib.redirect_stdout(sink), contextlib.redirect_stderr(sink):
            return context.evaluate(query, **kwargs)

    for cache_factory in (NoCache, MemoryCache):
        set_cache(cache_factory())
        for query, input_value, extra in scenarios:
            parsed = parse(query)
            actions, filename = actions_of(parsed)
            try:
                expected = ref_run(
                    actions,
                    input_value=None if input_value is NOINPUT else input_value,
                    extra=extra,
                )
            except RefError as e:
                failures.append(f"{query}: reference failed: {e}")
                continue
            del calls[:]
            try:
                state = library_eval(query, input_value, extra)
            except Exception as e:
                failures.append(f"{query}: library raised {type(e).__name__}: {e}")
                continue
            label = f"{query!r} (input={'-' if input_value is NOINPUT else repr(input_value)}, extra={extra!r}, cache={cache_factory.__name__})"
            if state.is_error:
                failures.append(f"{label}: evaluation flagged an error")
                continue
            exp_data, exp_vars, exp_last = expected
            got = state.get()
            if got != exp_data or type(got) is not type(exp_data):
                failures.append(f"{label}: value {got!r}, expected {exp_data!r}")
            if dict(state.vars) != exp_vars:
                failures.append(f"{label}: vars {dict(state.vars)!r}, expected {exp_vars!r}")
            if dict(state.metadata.get("vars", {})) != exp_vars:
                failures.append(f"{label}: metadata vars {state.metadata.get('vars')!r}, expected {exp_vars!r}")
            commands = state.metadata.get("commands", [])
            if not commands or commands[-1] != exp_last:
                failures.append(f"{label}: last command {commands[-1:]!r}, expected {exp_last!r}")
            if state.query != parsed.encode():
                failures.append(f"{label}: state.query {state.query!r}")
            if filename is not None:
                name = filename_text(filename)
                if state.metadata.get("filename") != name:
                    failures.append(f"{label}: filename {state.metadata.get('filename')!r}, expected {name!r}")
                if state.metadata.get("extension") != ".".join(name.split(".")[1:]):
                    failures.append(f"{label}: extension {state.metadata.get('extension')!r}")
            if cache_factory is NoCache and calls:
                # the last instrumented call is the last action of the query
                if calls[-1][0].split(".")[-1] != actions[-1].name:
                    failures.append(f"{label}: last call {calls[-1]!r}")

    # error behaviour stays an error: missing required argument, too many arguments, unknown command
    set_cache(NoCache())
    for query in ("val-1/setv-k", "val-1/add-1-2", "val-1/nosuch-1", "val-x"):
        try:
            state = library_eval(query, NOINPUT, None)
            if not state.is_error:
                failures.append(f"{query!r}: expected an error state, got {state.get()!r}")
        except Exception as e:
            failures.append(f"{query!r}: expected an error state, raised {type(e).__name__}: {e}")

    # a failing link argument raises EvaluationException out of the evaluation
    from liquer.state import EvaluationException

    for query in ("val-1/add-~X~/val-zz~E", "val-1/add-2/add-~X~add-zz~E"):
        try:
            state = library_eval(query, NOINPUT, None)
            failures.append(f"{query!r}: expected EvaluationException, got state (error={state.is_error})")
        except EvaluationException:
            pass
        except Exception as e:
            failures.append(f"{query!r}: expected EvaluationException, raised {type(e).__name__}: {e}")

    return failures


if __name__ == "__main__":
    scratch = tempfile.mkdtemp(prefix="c01_check_")
    try:
        failures = main()
    finally:
        shutil.rmtree(scratch, ignore_errors=True)
    if failures:
        print("PROPERTY VIOLATED: " + "; ".join(failures[:10]))
        sys.exit(1)
    print("PROPERTY HOLDS")
    sys.exit(0)
