"""Standalone check of property C03: any text can be passed as an argument and
encoded arguments are URL-path safe.

Run as:  cd <repo root> && /venv/bin/python check.py
"""
import os
import sys

sys.path.insert(0, os.getcwd())

import itertools
import random
import re
import shutil
import tempfile

SAFE_ENCODED = re.compile(r"^(?:[A-Za-z0-9_.~]|%[0-9A-Fa-f]{2})*$")
ALPHABET = ["/", "-", "~", "%", "+", " ", ":", "h", "H", "f", "P", "I", "_", ".",
            "E", "X", "2", "5", "a", "\u00e9"]
NASTY = [
    "", " ", "~", "~~", "~_", "~I", "~/", "~H", "~h", "~f", "~P", "~.", "~E", "~X~", "~X~abc~E",
    "~1", "-1", "-", "--", "/", "//", "a/b-c", "%", "%%", "%2", "%25", "%2F", "%2f", "%7E", "%7e",
    "%41", "+", "a+b", "a b", "http://", "https://", "file://", "://", "http", "http:/", "htt~p://x",
    "https://example.com/a-b/c?d=e&f=g#h", "file:///tmp/x-y.txt", "ftp://host/pa th",
    "\u00e9", "\u4e2d\u6587", "\U0001f600", "\x00", "\n", "\t", "\x7f", "\u2028", "a.b", ".", "..",
    "-R", "-R/x", "ns-abc", "~~~", "~ ", " ~", "~%7E", "%7E~", "caf\u00e9-au/lait ~ 100%+",
]


class Violation(Exception):
    pass


def check_token(s, encode_token, decode_token):
    e = encode_token(s)
    if not SAFE_ENCODED.match(e):
        raise Violation(f"encode_token({s!r}) = {e!r} is not URL-path safe / has bare separator")
    d = decode_token(e)
    if d != s:
        raise Violation(f"decode_token(encode_token({s!r})) = {d!r}")


def check_query(actions, parser):
    """actions: list of (name, [args]); builds the query, encodes, parses, compares."""
    q = parser.Query()
    for name, args in actions:
        q.with_action(name, *args)
    text = q.encode()
    # a programmatically built query carries the trivial segment header "-"
    body = text[2:] if text.startswith("-/") else text
    if body.count("/") != len(actions) - 1 or body.count("-") != sum(len(a) for _, a in actions):
        raise Violation(f"structure changed: {actions!r} encoded as {text!r}")
    parsed = parser.parse(text)
    got = [
        (a.name, [p.string for p in a.parameters])
        for seg in parsed.segments
        for a in seg.query
    ]
    if got != [(n, list(a)) for n, a in actions]:
        raise Violation(f"query {actions!r} encoded as {text!r} parsed back as {got!r}")
    if parsed.encode() != text:
        raise Violation(f"re-encoding of {text!r} gives {parsed.encode()!r}")
    # list-of-lists form
    ql = [[n] + list(a) for n, a in actions]
    enc = parser.encode(ql)
    if parser.decode(enc) != ql:
        raise Violation(f"decode(encode({ql!r})) = {parser.decode(enc)!r}")
    if enc != body:
        raise Violation(f"encode({ql!r}) = {enc!r} differs from Query encoding {text!r}")


def main():
    from liquer import parser
    from liquer.parser import encode_token, decode_token

    rnd = random.Random(20261003)

    # 1. single code points: all of the BMP below U+3000, then a stride over the rest
    cps = list(range(0, 0x3000)) + list(range(0x3000, 0x110000, 97)) + [0xFFFF, 0x10000, 0x10FFFF]
    for cp in cps:
        if 0xD800 <= cp <= 0xDFFF:
            continue
        check_token(chr(cp), encode_token, decode_token)

    # 2. all strings up to length 3 over the alphabet of significant characters (token level)
    for n in range(0, 4):
        for tup in itertools.product(ALPHABET, repeat=n):
            check_token("".join(tup), encode_token, decode_token)
    # length 4 over the core alphabet
    for tup in itertools.product(["/", "-", "~", "%", "+", " ", ":", "h", "2", "5", "E", "X"], repeat=4):
        check_token("".join(tup), encode_token, decode_token)

    # 3. nasty strings and random longer strings at the token level
    for s in NASTY:
        check_token(s, encode_token, decode_token)
    pool = ALPHABET + ["http://", "https://", "file://", "://", "~X~", "~E", "%2F", "\U0001f600", "\u4e2d"]
    randoms = ["".join(rnd.choice(pool) for _ in range(rnd.randint(5, 40))) for _ in range(2000)]
    for s in randoms:
        check_token(s, encode_token, decode_token)

    # 4. through Query.with_action(...).encode() and parse(): every argument position, 1-3 actions
    for s in NASTY:
        check_query([("cmd", [s])], parser)
    for tup in itertools.product(ALPHABET, repeat=2):
        check_query([("cmd", ["".join(tup)])], parser)
    for s in NASTY[::3] + randoms[:60]:
        check_query([("a", [s, "x"]), ("b", ["y", s])], parser)
        check_query([("a", ["1", s, "2"]), ("b_c", [s]), ("c", [s, s])], parser)
        check_query([("a", []), ("b", [s])], parser)
    # non-string scalars are stringified
    q = parser.Query().with_action("cmd", 1, -2.5, True)
    if [p.string for p in parser.parse(q.encode()).segments[0].query[0].parameters] != ["1", "-2.5", "True"]:
        raise Violation(f"scalar arguments mangled: {q.encode()!r}")

    # 5. inside nested links and segment-header parameters
    for s in NASTY[::2] + randoms[:40]:
        inner = parser.Query().with_action("inner", s, "z")
        link = parser.LinkActionParameter(inner)
        outer = parser.Query().with_action("outer", "p", link, s).with_action("last", s)
        text = outer.encode()
        parsed = parser.parse(text)
        acts = parsed.segments[0].query
        if [a.name for a in acts] != ["outer", "last"]:
            raise Violation(f"link query {text!r} parsed as actions {[a.name for a in acts]!r}")
        p0, p1, p2 = acts[0].parameters
        if p0.string != "p" or p2.string != s or acts[1].parameters[0].string != s:
            raise Violation(f"arguments around link mangled in {text!r}")
        ia = p1.link.segments[0].query[0]
        if ia.name != "inner" or [p.string for p in ia.parameters] != [s, "z"]:
            raise Violation(f"argument inside link mangled in {text!r}")
        if parsed.encode() != text:
            raise Violation(f"re-encoding of {text!r} gives {parsed.encode()!r}")

        header = parser.SegmentHeader(
            "ns", level=1, parameters=[parser.StringActionParameter(s), parser.StringActionParameter("k")]
        )
        seg = parser.TransformQuerySegment(header, [parser.ActionRequest.from_arguments("act", s)])
        hq = parser.Query([seg])
        text = hq.encode()
        parsed = parser.parse(text)
        ps = parsed.segments[0]
        if ps.header.name != "ns" or [p.string for p in ps.header.parameters] != [s, "k"]:
            raise Violation(f"segment header parameter mangled in {text!r}")
        if [(a.name, [p.string for p in a.parameters]) for a in ps.query] != [("act", [s])]:
            raise Violation(f"action after header mangled in {text!r}")

    # 6. end-to-end: an argument survives the trip through evaluation
    tmp = tempfile.mkdtemp(prefix="c03check_")
    cwd = os.getcwd()
    try:
        os.chdir(tmp)
        from liquer import first_command, evaluate
        from liquer.commands import reset_command_registry

        reset_command_registry()

        @first_command
        def c03echo(a="", b=""):
            return f"{a}|{b}"

        for s in ["a/b-c ~ 100%+", "https://x.y/z-w?q=~h", "%41~_", "\u00e9\U0001f600 \u4e2d", "~X~c03echo~E"]:
            text = parser.Query().with_action("c03echo", s, "tail").encode()
            value = evaluate(text).get()
            if value != f"{s}|tail":
                raise Violation(f"evaluate({text!r}) gave {value!r}")
        reset_command_registry()
    finally:
        os.chdir(cwd)
        shutil.rmtree(tmp, ignore_errors=True)


if __name__ == "__main__":
    try:
        main()
    except Violation as v:
        print("PROPERTY VIOLATED:", v)
        sys.exit(1)
    except Exception as ex:  # unexpected exception is a violation as well
        import traceback

        traceback.print_exc()
        print("PROPERTY VIOLATED: unexpected exception", repr(ex))
        sys.exit(1)
    print("PROPERTY HOLDS")
    sys.exit(0)
