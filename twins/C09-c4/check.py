"""Check of property C09: cached prefixes are never re-executed.

Run as:  cd <repo root> && /venv/bin/python check.py
"""
import os
import sys

sys.path.insert(0, os.getcwd())

import contextlib
import io
import shutil
import tempfile
import traceback

CALLS = []
PROBLEMS = []


def problem(text):
    PROBLEMS.append(text)


def register_commands():
    from liquer import first_command, command
    from liquer.commands import reset_command_registry

    reset_command_registry()

    @first_command
    def start(n=1):
        CALLS.append("start")
        return int(n)

    @command
    def add(x, n=1):
        CALLS.append("add")
        return x + int(n)

    @command
    def mul(x, n=2):
        CALLS.append("mul")
        return x * int(n)

    @command
    def neg(x):
        CALLS.append("neg")
        return -x

    @command
    def text(x):
        CALLS.append("text")
        return f"<{x}>"


def cache_factories(tmp):
    """Returns list of (name, factory) pairs; each factory creates a fresh empty cache."""
    from liquer.cache import (
        MemoryCache,
        FileCache,
        XORFileCache,
        SQLCache,
        SQLStringCache,
        StoreCache,
        CacheProxy,
    )
    from liquer.store import MemoryStore

    counter = [0]

    def fresh_dir():
        counter[0] += 1
        return os.path.join(tmp, f"cache{counter[0]}")

    factories = [
        ("MemoryCache", lambda: MemoryCache()),
        ("FileCache", lambda: FileCache(fresh_dir())),
        ("XORFileCache", lambda: XORFileCache(fresh_dir(), b"**some-code**")),
        ("SQLCache.from_sqlite", lambda: SQLCache.from_sqlite()),
        ("SQLStringCache.from_sqlite", lambda: SQLStringCache.from_sqlite()),
        (
            "SQLCache.from_sqlite(file)",
            lambda: SQLCache.from_sqlite(os.path.join(tmp, f"db{fresh_dir()[-1]}.sqlite")),
        ),
        ("StoreCache", lambda: StoreCache(MemoryStore(), "cache")),
        ("StoreCache(flat)", lambda: StoreCache(MemoryStore(), "cache", flat=True)),
        ("CacheProxy(MemoryCache)", lambda: CacheProxy(MemoryCache())),
        (
            "MemoryCache.if_not_contains",
            lambda: MemoryCache().if_not_contains("never_set_attribute"),
        ),
        (
            "MemoryCache.if_attribute_not_equal",
            lambda: MemoryCache().if_attribute_not_equal("never_set_attribute", 1),
        ),
        (
            "MemoryCache.if_attribute_equal(None)",
            lambda: MemoryCache().if_attribute_equal("never_set_attribute", None),
        ),
        (
            "if_contains + MemoryCache",
            lambda: MemoryCache().if_contains("never_set_attribute") + MemoryCache(),
        ),
        (
            "FileCache.if_contains + SQLCache",
            lambda: FileCache(fresh_dir()).if_contains("never_set_attribute")
            + SQLCache.from_sqlite(),
        ),
        (
            "if_attribute_equal + FileCache",
            lambda: MemoryCache().if_attribute_equal("never_set_attribute", 5)
            + FileCache(fresh_dir()),
        ),
    ]
    try:
        from cryptography.fernet import Fernet
        from liquer.cache import FernetFileCache

        key = Fernet.generate_key()
        factories.append(
            ("FernetFileCache", lambda: FernetFileCache(fresh_dir(), key))
        )
    except ImportError:
        pass
    return factories


def prefixes(query):
    parts = query.split("/")
    return ["/".join(parts[: i + 1]) for i in range(len(parts))]


def run_quiet(f, *arg, **kwarg):
    buffer = io.StringIO()
    with contextlib.redirect_stdout(buffer), contextlib.redirect_stderr(buffer):
        return f(*arg, **kwarg)


def evaluate_counting(query):
    from liquer import evaluate

    del CALLS[:]
    state = run_quiet(evaluate, query)
    return state, list(CALLS)


# (query, expected calls in a cold cache, expected value, extension, calls of extension, value of extension)
SCENARIOS = [
    ("start", ["start"], 1, "start/add-5", ["add"], 6),
    ("start-3/add-4", ["start", "add"], 7, "start-3/add-4/mul-3", ["mul"], 21),
    (
        "start-2/add-1/mul-5/neg",
        ["start", "add", "mul", "neg"],
        -15,
        # extension of a proper prefix of the query
        "start-2/add-1/text",
        ["text"],
        "<3>",
    ),
    (
        "start-2/mul/mul/mul",
        ["start", "mul", "mul", "mul"],
        16,
        "start-2/mul/mul/mul/add-1/neg/text",
        ["add", "neg", "text"],
        "<-17>",
    ),
    (
        "start-7/text",
        ["start", "text"],
        "<7>",
        "start-7/neg/neg",
        ["neg", "neg"],
        7,
    ),
]


def check_cache_kind(name, factory):
    from liquer.cache import set_cache

    for query, cold_calls, value, extension, extension_calls, extension_value in SCENARIOS:
        where = f"[{name}] query '{query}'"
        cache = run_quiet(factory)
        set_cache(cache)
        try:
            state, calls = evaluate_counting(query)
            if state.is_error:
                problem(f"{where}: evaluation failed")
                continue
            if state.get() != value:
                problem(f"{where}: value {state.get()!r}, expected {value!r}")
            if calls != cold_calls:
                problem(f"{where}: cold evaluation executed {calls}, expected {cold_calls}")

            # every intermediate and the final result is stored and served
            for prefix in prefixes(query):
                if not run_quiet(cache.contains, prefix):
                    problem(f"{where}: cache does not contain '{prefix}' after evaluation")
                cached = run_quiet(cache.get, prefix)
                if cached is None:
                    problem(f"{where}: cache does not serve '{prefix}' after evaluation")
                elif cached.query != prefix:
                    problem(f"{where}: cache serves query '{cached.query}' for '{prefix}'")
            cached = run_quiet(cache.get, query)
            if cached is not None and cached.get() != value:
                problem(f"{where}: cache serves {cached.get()!r}, expected {value!r}")

            # immediate re-evaluation executes nothing
            state, calls = evaluate_counting(query)
            if calls:
                problem(f"{where}: re-evaluation executed {calls}")
            if state.is_error or state.get() != value:
                problem(f"{where}: re-evaluation value {state.get()!r}, expected {value!r}")

            # re-evaluation of each prefix executes nothing as well
            for prefix in prefixes(query):
                state, calls = evaluate_counting(prefix)
                if calls:
                    problem(f"{where}: re-evaluation of prefix '{prefix}' executed {calls}")

            # extension executes only the commands right of the longest cached prefix
            state, calls = evaluate_counting(extension)
            if calls != extension_calls:
                problem(
                    f"{where}: extension '{extension}' executed {calls}, expected {extension_calls}"
                )
            if state.is_error or state.get() != extension_value:
                problem(
                    f"{where}: extension '{extension}' value {state.get()!r}, expected {extension_value!r}"
                )
            if not run_quiet(cache.contains, extension):
                problem(f"{where}: cache does not contain extension '{extension}'")
            cached = run_quiet(cache.get, extension)
            if cached is None or cached.get() != extension_value:
                problem(f"{where}: cache does not serve extension '{extension}'")
            state, calls = evaluate_counting(extension)
            if calls:
                problem(f"{where}: re-evaluation of extension executed {calls}")

            # storing the same key twice keeps a single entry per key
            keys = [k for k in run_quiet(lambda: list(cache.keys()))]
            for k in set(keys):
                if keys.count(k) != 1:
                    problem(f"{where}: key '{k}' listed {keys.count(k)} times")
        finally:
            set_cache(None)


def check_fresh_instance_sees_files(tmp):
    """A second cache object over the same directory/database serves what the first one stored."""
    from liquer.cache import FileCache, SQLCache, set_cache

    path = os.path.join(tmp, "shared_file_cache")
    db = os.path.join(tmp, "shared.sqlite")
    for name, make in [
        ("FileCache reopened", lambda: FileCache(path)),
        ("SQLCache reopened", lambda: SQLCache.from_sqlite(db)),
    ]:
        set_cache(run_quiet(make))
        try:
            state, calls = evaluate_counting("start-4/add-4/mul-4")
            if calls != ["start", "add", "mul"] or state.get() != 32:
                problem(f"[{name}] cold evaluation executed {calls}, value {state.get()!r}")
            set_cache(run_quiet(make))
            state, calls = evaluate_counting("start-4/add-4/mul-4/neg")
            if calls != ["neg"] or state.get() != -32:
                problem(f"[{name}] extension after reopening executed {calls}, value {state.get()!r}")
        finally:
            set_cache(None)


def main():
    tmp = tempfile.mkdtemp(prefix="c09_check_")
    try:
        register_commands()
        for name, factory in cache_factories(tmp):
            try:
                check_cache_kind(name, factory)
            except Exception:
                problem(f"[{name}] unexpected exception: {traceback.format_exc()}")
        try:
            check_fresh_instance_sees_files(tmp)
        except Exception:
            problem(f"[reopen] unexpected exception: {traceback.format_exc()}")
    finally:
        try:
            from liquer.cache import set_cache
            from liquer.commands import reset_command_registry

            set_cache(None)
            reset_command_registry()
        except Exception:
            pass
        shutil.rmtree(tmp, ignore_errors=True)

    if PROBLEMS:
        print("PROPERTY VIOLATED: " + "; ".join(PROBLEMS[:10]))
        if len(PROBLEMS) > 10:
            print(f"... and {len(PROBLEMS) - 10} more")
        return 1
    print("PROPERTY HOLDS")
    return 0


if __name__ == "__main__":
    sys.exit(main())
