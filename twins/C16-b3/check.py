"""Crash-consistency check for LiQuer file-backed caches and stores (property C16).

Run as:  cd <repo root> && /venv/bin/python check.py

For a handful of crash points the write (or remove) is executed in a forked
child process which is killed (os._exit) at a file-system operation boundary.
The parent then opens a FRESH cache/store object on the same directory and
checks that a read of the entry yields nothing, the complete previous value
or the complete new value, and that an unrelated entry is unaffected.
"""
import os
import sys

sys.path.insert(0, os.getcwd())

import builtins
import contextlib
import io
import shutil
import tempfile

from liquer.state import State
from liquer.cache import FileCache, XORFileCache, StoreCache
from liquer.store import FileStore, KeyNotFoundStoreException

try:
    from cryptography.fernet import Fernet
    from liquer.cache import FernetFileCache

    FERNET_KEY = Fernet.generate_key()
except Exception:  # optional dependency
    FERNET_KEY = None

KILLED = 9
KEY = "sub/entry.txt"  # valid as a query string and as a store key
OTHER = "sub/other.txt"
OTHER_VALUE = "untouched " * 50
VALUES = [
    ("old text " * 200, "NEW TEXT " * 300),
    (123, 456789),
    ({"a": [1, 2, 3], "b": "x" * 500}, {"c": list(range(300))}),
    (b"\x00\x01old" * 300, b"\xff\xfenew" * 500),
]


class Nothing:
    def __repr__(self):
        return "<nothing>"


NOTHING = Nothing()


# ---------------------------------------------------------------- backends
class CacheBackend:
    is_cache = True

    def __init__(self, name, factory):
        self.name = name
        self.factory = factory

    def open(self, directory):
        return self.factory(directory)

    def write(self, obj, key, value):
        state = State().with_data(value)
        state.query = key
        assert obj.store(state), "store refused"

    def remove(self, obj, key):
        obj.remove(key)

    def read(self, obj, key):
        try:
            state = obj.get(key)
        except KeyNotFoundStoreException:
            return NOTHING
        if state is None:
            return NOTHING
        return state.get()

    def convert(self, value):
        return value


class StoreBackend:
    is_cache = False
    name = "FileStore"

    def open(self, directory):
        return FileStore(directory)

    def write(self, obj, key, value):
        obj.store(key, value, {})

    def remove(self, obj, key):
        obj.remove(key)

    def read(self, obj, key):
        """Read bytes, then metadata, then bytes again (metadata read may clean up)."""
        try:
            first = obj.get_bytes(key)
        except KeyNotFoundStoreException:
            first = NOTHING
        try:
            metadata = obj.get_metadata(key)
            if not isinstance(metadata, dict):
                raise AssertionError(f"metadata is not a dict: {metadata!r}")
        except KeyNotFoundStoreException:
            pass
        try:
            second = obj.get_bytes(key)
        except KeyNotFoundStoreException:
            second = NOTHING
        if second is not NOTHING and first is not NOTHING and first != second:
            raise AssertionError("two consecutive reads disagree")
        return first

    def convert(self, value):
        if isinstance(value, bytes):
            return value
        return repr(value).encode("utf-8")


def backends():
    result = [
        CacheBackend("FileCache", lambda d: FileCache(d)),
        CacheBackend("XORFileCache", lambda d: XORFileCache(d, b"s3cr3t")),
    ]
    if FERNET_KEY is not None:
        result.append(
            CacheBackend("FernetFileCache", lambda d: FernetFileCache(d, FERNET_KEY))
        )
    result.append(StoreBackend())
    result.append(
        CacheBackend(
            "StoreCache(FileStore)", lambda d: StoreCache(FileStore(d), path="cache")
        )
    )
    result.append(
        CacheBackend(
            "StoreCache(FileStore,flat)",
            lambda d: StoreCache(FileStore(d), path="cache", flat=True),
        )
    )
    return result


# ------------------------------------------------------------ fault injection
def die():
    os._exit(KILLED)


class HalfWriter:
    """File proxy: the first write stores only half of the data, then the process dies."""

    def __init__(self, real):
        self._real = real

    def write(self, data):
        self._real.write(data[: len(data) // 2])
        self._real.flush()
        die()

    def __enter__(self):
        return self

    def __exit__(self, *args):
        self._real.close()

    def __getattr__(self, name):
        return getattr(self._real, name)


def install_fault(fault):
    kind, n = fault
    counter = {"n": 0}

    def hit():
        counter["n"] += 1
        return counter["n"] == n

    if kind in ("before_replace", "after_replace"):
        real_replace = os.replace

        def replace(src, dst, *args, **kwargs):
            if hit():
                if kind == "after_replace":
                    real_replace(src, dst, *args, **kwargs)
                die()
            return real_replace(src, dst, *args, **kwargs)

        os.replace = replace
    elif kind in ("open_truncate", "partial_write", "before_close"):
        real_open = builtins.open

        def opener(file, mode="r", *args, **kwargs):
            f = real_open(file, mode, *args, **kwargs)
            if isinstance(mode, str) and "w" in mode and hit():
                if kind == "open_truncate":
                    die()
                if kind == "partial_write":
                    return HalfWriter(f)

                class DieOnClose(HalfWriter):
                    def write(self, data):
                        return self._real.write(data)

                    def __exit__(self, *args):
                        self._real.flush()
                        die()

                    def close(self):
                        self._real.flush()
                        die()

                return DieOnClose(f)
            return f

        builtins.open = opener
        io.open = opener
    elif kind == "unlink":
        real_unlink, real_remove = os.unlink, os.remove

        def unlink(path, *args, **kwargs):
            if hit():
                die()
            return real_unlink(path, *args, **kwargs)

        def remove(path, *args, **kwargs):
            if hit():
                die()
            return real_remove(path, *args, **kwargs)

        os.unlink = unlink
        os.remove = remove
    elif kind == "mkdir":
        real_mkdir = os.mkdir

        def mkdir(path, *args, **kwargs):
            if hit():
                die()
            return real_mkdir(path, *args, **kwargs)

        os.mkdir = mkdir
    else:
        raise ValueError(kind)


def run_in_killed_child(action, fault):
    """Fork; the child installs the fault and runs action. Returns the exit code."""
    sys.stdout.flush()
    sys.stderr.flush()
    pid = os.fork()
    if pid == 0:
        code = 3
        try:
            devnull = os.open(os.devnull, os.O_WRONLY)
            os.dup2(devnull, 1)
            os.dup2(devnull, 2)
            install_fault(fault)
            action()
            code = 0
        except BaseException:
            code = 3
        finally:
            os._exit(code)
    _, status = os.waitpid(pid, 0)
    return os.waitstatus_to_exitcode(status)


# ------------------------------------------------------------------ scenarios
WRITE_FAULTS = [
    ("mkdir", 1),
    ("open_truncate", 1),
    ("open_truncate", 2),
    ("partial_write", 1),
    ("partial_write", 2),
    ("before_close", 1),
    ("before_close", 2),
    ("before_replace", 1),
    ("after_replace", 1),
]
REMOVE_FAULTS = [("unlink", 1), ("unlink", 2)]


def quiet(function, *args):
    sink = io.StringIO()
    with contextlib.redirect_stdout(sink), contextlib.redirect_stderr(sink):
        return function(*args)


def scenario(backend, operation, fault, old, new, problems, stats):
    label = f"{backend.name} {operation} fault={fault[0]}#{fault[1]} value={type(new).__name__}"
    directory = tempfile.mkdtemp(prefix="c16_check_")
    try:
        obj = quiet(backend.open, directory)
        quiet(backend.write, obj, OTHER, backend.convert(OTHER_VALUE))
        allowed = [NOTHING]
        if operation in ("overwrite", "remove"):
            quiet(backend.write, obj, KEY, backend.convert(old))
            allowed.append(backend.convert(old))
        if operation == "remove":
            action = lambda: backend.remove(backend.open(directory), KEY)
        else:
            allowed.append(backend.convert(new))
            action = lambda: backend.write(
                backend.open(directory), KEY, backend.convert(new)
            )
        code = run_in_killed_child(action, fault)
        if code == KILLED:
            stats["killed"] += 1
        elif code == 0:
            stats["completed"] += 1  # crash point not reached: operation completed
        else:
            problems.append(f"{label}: operation failed in child (exit code {code})")
            return

        fresh = quiet(backend.open, directory)
        try:
            seen = quiet(backend.read, fresh, KEY)
        except Exception as e:
            problems.append(f"{label}: read after restart raised {e!r}")
            return
        if not any(
            (seen is a) or (a is not NOTHING and seen is not NOTHING and seen == a)
            for a in allowed
        ):
            problems.append(
                f"{label}: read after restart gave {str(seen)[:60]!r} which is neither "
                f"nothing, the previous nor the new value"
            )
        # a second read must be consistent with the permitted outcomes as well
        try:
            again = quiet(backend.read, quiet(backend.open, directory), KEY)
        except Exception as e:
            problems.append(f"{label}: second read after restart raised {e!r}")
            return
        if not any(
            (again is a) or (a is not NOTHING and again is not NOTHING and again == a)
            for a in allowed
        ):
            problems.append(f"{label}: second read gave a corrupt value")
        try:
            other = quiet(backend.read, fresh, OTHER)
        except Exception as e:
            problems.append(f"{label}: reading unrelated entry raised {e!r}")
            return
        if other is NOTHING or other != backend.convert(OTHER_VALUE):
            problems.append(f"{label}: unrelated entry was affected")
    finally:
        shutil.rmtree(directory, ignore_errors=True)


def main():
    problems = []
    stats = {"killed": 0, "completed": 0}
    for backend in backends():
        for i, (old, new) in enumerate(VALUES):
            for operation in ("fresh", "overwrite"):
                for fault in WRITE_FAULTS:
                    scenario(backend, operation, fault, old, new, problems, stats)
            if i == 0:
                for fault in REMOVE_FAULTS:
                    scenario(backend, "remove", fault, old, new, problems, stats)
    if stats["killed"] == 0:
        problems.append("fault injection never fired - check is vacuous")
    if problems:
        print("PROPERTY VIOLATED: " + "; ".join(problems[:10]))
        if len(problems) > 10:
            print(f"... and {len(problems) - 10} more")
        return 1
    print(
        f"PROPERTY HOLDS ({stats['killed']} killed writes/removes, "
        f"{stats['completed']} runs where the crash point was not reached)"
    )
    return 0


if __name__ == "__main__":
    sys.exit(main())
