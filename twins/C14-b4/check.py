"""Standalone check of property C14 (mounted stores: routing, key translation, union views).

Run as:  cd <repo root> && /venv/bin/python check.py
Exits 0 printing "PROPERTY HOLDS", or 1 printing "PROPERTY VIOLATED: ...".
"""
import os
import sys

sys.path.insert(0, os.getcwd())

import shutil
import tempfile
import traceback

from liquer.store import (
    MemoryStore,
    FileStore,
    MountPointStore,
    KeyRouteNotFoundStoreException,
    KeyNotFoundStoreException,
    StoreException,
)


class Violation(Exception):
    pass


def expect(cond, msg):
    if not cond:
        raise Violation(msg)


def expect_eq(actual, expected, msg):
    if actual != expected:
        raise Violation(f"{msg}: expected {expected!r}, got {actual!r}")


def expect_raises(exc_type, f, msg):
    try:
        f()
    except exc_type:
        return
    except Exception as e:
        raise Violation(f"{msg}: expected {exc_type.__name__}, got {type(e).__name__}: {e}")
    raise Violation(f"{msg}: expected {exc_type.__name__}, nothing raised")


def put(store, key, text):
    store.store(key, text.encode("utf-8"), {"note": text})


def check_entry(root, root_key, part, part_key, text, label):
    """root_key in the composite and part_key in the part must be the same entry."""
    data = text.encode("utf-8")
    expect_eq(root.get_bytes(root_key), data, f"{label}: composite get_bytes({root_key!r})")
    expect_eq(part.get_bytes(part_key), data, f"{label}: part get_bytes({part_key!r})")
    expect(root.contains(root_key), f"{label}: composite does not contain {root_key!r}")
    expect(part.contains(part_key), f"{label}: part does not contain {part_key!r}")
    expect_eq(root.is_dir(root_key), False, f"{label}: composite is_dir({root_key!r})")
    m = root.get_metadata(root_key)
    expect_eq(m["key"], root_key, f"{label}: composite metadata key for {root_key!r}")
    expect_eq(m.get("note"), text, f"{label}: composite metadata note for {root_key!r}")
    expect_eq(m["fileinfo"]["is_dir"], False, f"{label}: fileinfo.is_dir for {root_key!r}")
    pm = part.get_metadata(part_key)
    expect_eq(pm["key"], part_key, f"{label}: part metadata key for {part_key!r}")
    expect_eq(pm.get("note"), text, f"{label}: part metadata note for {part_key!r}")


def check_dir(root, key, label):
    expect_eq(root.is_dir(key), True, f"{label}: is_dir({key!r})")
    m = root.get_metadata(key)
    expect_eq(m["key"], key, f"{label}: directory metadata key for {key!r}")
    expect_eq(m["fileinfo"]["is_dir"], True, f"{label}: directory fileinfo.is_dir for {key!r}")


def scenario_siblings(make_store, label):
    """Default store + two sibling mounts, one- and two-component prefixes."""
    default, sa, sbc = make_store("default"), make_store("a"), make_store("bc")
    root = MountPointStore(default)
    root.mount("a", sa)
    root.mount("b/c", sbc)

    put(root, "a/x.txt", "ax")
    put(root, "a/d/y.txt", "ady")
    put(root, "b/c/z.txt", "bcz")
    put(root, "b/q.txt", "bq")
    put(root, "other/w.txt", "ow")
    put(root, "top.txt", "top")

    check_entry(root, "a/x.txt", sa, "x.txt", "ax", label)
    check_entry(root, "a/d/y.txt", sa, "d/y.txt", "ady", label)
    check_entry(root, "b/c/z.txt", sbc, "z.txt", "bcz", label)
    check_entry(root, "b/q.txt", default, "b/q.txt", "bq", label)
    check_entry(root, "other/w.txt", default, "other/w.txt", "ow", label)
    check_entry(root, "top.txt", default, "top.txt", "top", label)

    # exclusivity
    for k in ("a/x.txt", "a/d/y.txt", "b/c/z.txt", "x.txt", "z.txt", "d/y.txt"):
        expect(not default.contains(k), f"{label}: default store leaked key {k!r}")
    for k in ("b/q.txt", "other/w.txt", "top.txt", "a/x.txt", "z.txt"):
        expect(not sa.contains(k), f"{label}: store mounted at 'a' leaked key {k!r}")
    for k in ("b/q.txt", "x.txt", "b/c/z.txt", "q.txt"):
        expect(not sbc.contains(k), f"{label}: store mounted at 'b/c' leaked key {k!r}")
    expect(not root.contains("a/nothing.txt"), f"{label}: contains phantom key in mount")
    expect(not root.contains("nothing.txt"), f"{label}: contains phantom key in default")
    expect(not root.contains("b/c/q.txt"), f"{label}: contains phantom key in b/c")

    # union of keys
    expected_keys = {
        "a", "a/x.txt", "a/d", "a/d/y.txt",
        "b/c", "b/c/z.txt",
        "b", "b/q.txt", "other", "other/w.txt", "top.txt",
    }
    keys = list(root.keys())
    expect_eq(sorted(set(keys)), sorted(expected_keys), f"{label}: keys()")
    parts_union = (
        {"a"} | {"a/" + k for k in sa.keys()}
        | {"b/c"} | {"b/c/" + k for k in sbc.keys()}
        | set(default.keys())
    )
    expect_eq(sorted(set(keys)), sorted(parts_union), f"{label}: keys() vs union of parts")

    # directory listings
    expect_eq(root.listdir(""), ["a", "b", "other", "top.txt"], f"{label}: listdir('')")
    expect_eq(sorted(root.listdir("a")), ["d", "x.txt"], f"{label}: listdir('a')")
    expect_eq(sorted(root.listdir("a/d")), ["y.txt"], f"{label}: listdir('a/d')")
    expect_eq(sorted(root.listdir("b")), ["c", "q.txt"], f"{label}: listdir('b')")
    expect_eq(sorted(root.listdir("b/c")), ["z.txt"], f"{label}: listdir('b/c')")
    expect_eq(sorted(root.listdir("other")), ["w.txt"], f"{label}: listdir('other')")
    expect_eq(
        sorted(root.listdir_keys("b")), ["b/c", "b/q.txt"], f"{label}: listdir_keys('b')"
    )

    # directories, mount points are directories
    for k in ("", "a", "b/c", "b", "a/d", "other"):
        expect_eq(root.is_dir(k), True, f"{label}: is_dir({k!r})")
    for k in ("a", "b/c", "b", "a/d", "other"):
        expect(root.contains(k), f"{label}: contains({k!r})")
        check_dir(root, k, label)
    expect_eq(root.is_dir("zzz"), False, f"{label}: is_dir('zzz')")
    expect_eq(root.is_dir("a/zzz"), False, f"{label}: is_dir('a/zzz')")

    # key translation to root
    expect_eq(sa.to_root_key("x.txt"), "a/x.txt", f"{label}: sa.to_root_key")
    expect_eq(sa.to_root_key("d/y.txt"), "a/d/y.txt", f"{label}: sa.to_root_key nested")
    expect_eq(sa.to_root_key(""), "a", f"{label}: sa.to_root_key('')")
    expect_eq(sbc.to_root_key("z.txt"), "b/c/z.txt", f"{label}: sbc.to_root_key")
    expect_eq(sbc.to_root_key(""), "b/c", f"{label}: sbc.to_root_key('')")
    expect_eq(default.to_root_key("b/q.txt"), "b/q.txt", f"{label}: default.to_root_key")
    expect(sa.root_store() is root, f"{label}: sa.root_store()")
    expect(sbc.root_store() is root, f"{label}: sbc.root_store()")
    expect(default.root_store() is root, f"{label}: default.root_store()")
    for part, k in ((sa, "x.txt"), (sa, "d/y.txt"), (sbc, "z.txt"), (default, "top.txt")):
        expect_eq(
            part.root_store().get_bytes(part.to_root_key(k)),
            part.get_bytes(k),
            f"{label}: access via root key of {k!r}",
        )

    # writes directly to a part are visible through the composite
    put(sbc, "deep/new.txt", "new")
    check_entry(root, "b/c/deep/new.txt", sbc, "deep/new.txt", "new", label)
    expect("b/c/deep/new.txt" in set(root.keys()), f"{label}: keys() misses part write")
    expect_eq(sorted(root.listdir("b/c")), ["deep", "z.txt"], f"{label}: listdir after part write")

    # metadata-only update and removal are routed
    root.store_metadata("a/x.txt", {"note": "changed"})
    expect_eq(sa.get_metadata("x.txt").get("note"), "changed", f"{label}: store_metadata routed")
    expect_eq(root.get_metadata("a/x.txt")["key"], "a/x.txt", f"{label}: key after store_metadata")
    root.remove("a/x.txt")
    expect(not sa.contains("x.txt"), f"{label}: remove not routed to mount")
    expect(not root.contains("a/x.txt"), f"{label}: composite still contains removed key")
    expect("a/x.txt" not in set(root.keys()), f"{label}: keys() lists removed key")
    root.remove("top.txt")
    expect(not default.contains("top.txt"), f"{label}: remove not routed to default")
    expect_eq(root.listdir(""), ["a", "b", "other"], f"{label}: listdir('') after remove")

    # a mount point can't be removed as a directory
    expect_raises(StoreException, lambda: root.removedir("a"), f"{label}: removedir(mount point)")
    expect(root.is_dir("a"), f"{label}: mount point vanished")


def scenario_nested(make_store, label):
    """Outer mounted before inner (nested prefixes), default store present."""
    default, outer, inner, side = (
        make_store("default"), make_store("outer"), make_store("inner"), make_store("side"),
    )
    root = MountPointStore(default)
    root.mount("a", outer)
    root.mount("a/b", inner)
    root.mount("s", side)

    put(root, "a/k.txt", "outer-k")
    put(root, "a/b/k.txt", "inner-k")
    put(root, "a/c/k.txt", "outer-ck")
    put(root, "s/k.txt", "side-k")
    put(root, "k.txt", "default-k")

    check_entry(root, "a/k.txt", outer, "k.txt", "outer-k", label)
    check_entry(root, "a/b/k.txt", inner, "k.txt", "inner-k", label)
    check_entry(root, "a/c/k.txt", outer, "c/k.txt", "outer-ck", label)
    check_entry(root, "s/k.txt", side, "k.txt", "side-k", label)
    check_entry(root, "k.txt", default, "k.txt", "default-k", label)

    expect(not outer.contains("b/k.txt"), f"{label}: outer store received inner key")
    expect(not outer.contains("b"), f"{label}: outer store received inner directory")
    expect(not default.contains("a/k.txt"), f"{label}: default received mounted key")
    expect(not default.contains("a/b/k.txt"), f"{label}: default received inner mounted key")
    expect_eq(sorted(inner.keys()), ["k.txt"], f"{label}: inner keys")

    expected_keys = {
        "a", "a/k.txt", "a/c", "a/c/k.txt", "a/b", "a/b/k.txt", "s", "s/k.txt", "k.txt",
    }
    expect_eq(sorted(set(root.keys())), sorted(expected_keys), f"{label}: keys()")

    expect_eq(root.listdir(""), ["a", "k.txt", "s"], f"{label}: listdir('')")
    expect_eq(sorted(root.listdir("a")), ["b", "c", "k.txt"], f"{label}: listdir('a')")
    expect_eq(sorted(root.listdir("a/b")), ["k.txt"], f"{label}: listdir('a/b')")
    for k in ("a", "a/b", "a/c", "s"):
        check_dir(root, k, label)
        expect(root.contains(k), f"{label}: contains({k!r})")

    expect_eq(inner.to_root_key("k.txt"), "a/b/k.txt", f"{label}: inner.to_root_key")
    expect_eq(inner.to_root_key(""), "a/b", f"{label}: inner.to_root_key('')")
    expect_eq(outer.to_root_key("c/k.txt"), "a/c/k.txt", f"{label}: outer.to_root_key")
    for part, k in ((inner, "k.txt"), (outer, "k.txt"), (outer, "c/k.txt"), (side, "k.txt")):
        expect(part.root_store() is root, f"{label}: root_store")
        expect_eq(
            root.get_bytes(part.to_root_key(k)), part.get_bytes(k), f"{label}: via root key {k!r}"
        )
        expect_eq(
            root.get_metadata(part.to_root_key(k))["key"],
            part.to_root_key(k),
            f"{label}: metadata key via root key {k!r}",
        )

    # unmounting the inner store exposes the outer one for the same prefix
    root.umount("a/b")
    expect(not root.contains("a/b/k.txt"), f"{label}: key of unmounted store still visible")
    put(root, "a/b/k2.txt", "outer-bk2")
    check_entry(root, "a/b/k2.txt", outer, "b/k2.txt", "outer-bk2", label)
    expect(not inner.contains("k2.txt"), f"{label}: unmounted store received a key")

    # re-mounting at the same key replaces the mount
    side2 = make_store("side2")
    root.mount("s", side2)
    expect(not root.contains("s/k.txt"), f"{label}: replaced mount still serves keys")
    put(root, "s/n.txt", "side2-n")
    check_entry(root, "s/n.txt", side2, "n.txt", "side2-n", label)
    expect(not side.contains("n.txt"), f"{label}: replaced store received key")
    expect_eq(len([k for k, _ in root.routing_table if k == "s"]), 1, f"{label}: duplicate mount")


def scenario_no_default(make_store, label):
    """No default store; zero mounts and a two-component mount."""
    empty = MountPointStore()
    expect_eq(list(empty.keys()), [], f"{label}: empty keys()")
    expect_eq(empty.listdir(""), [], f"{label}: empty listdir('')")
    expect_eq(empty.is_dir(""), True, f"{label}: empty is_dir('')")
    expect_eq(empty.is_dir("x"), False, f"{label}: empty is_dir('x')")
    expect_raises(
        KeyRouteNotFoundStoreException, lambda: empty.get_bytes("x"), f"{label}: empty get_bytes"
    )
    expect_raises(
        KeyNotFoundStoreException, lambda: empty.get_metadata("x"), f"{label}: empty get_metadata"
    )

    spq = make_store("pq")
    root = MountPointStore()
    root.mount("p/q", spq)
    put(root, "p/q/f.txt", "pqf")
    put(root, "p/q/r/g.txt", "pqrg")
    check_entry(root, "p/q/f.txt", spq, "f.txt", "pqf", label)
    check_entry(root, "p/q/r/g.txt", spq, "r/g.txt", "pqrg", label)

    expect_raises(
        KeyRouteNotFoundStoreException,
        lambda: root.store("outside.txt", b"x", {}),
        f"{label}: store outside mounts",
    )
    expect_raises(
        KeyRouteNotFoundStoreException,
        lambda: root.get_bytes("p/other.txt"),
        f"{label}: get_bytes outside mounts",
    )
    expect_raises(
        KeyRouteNotFoundStoreException,
        lambda: root.contains("pq/f.txt"),
        f"{label}: contains with look-alike prefix",
    )
    expect_raises(
        KeyNotFoundStoreException,
        lambda: root.get_metadata("outside.txt"),
        f"{label}: get_metadata outside mounts",
    )

    expect_eq(
        sorted(set(root.keys())),
        ["p/q", "p/q/f.txt", "p/q/r", "p/q/r/g.txt"],
        f"{label}: keys()",
    )
    expect_eq(root.listdir(""), ["p"], f"{label}: listdir('')")
    expect_eq(root.listdir("p"), ["q"], f"{label}: listdir('p')")
    expect_eq(sorted(root.listdir("p/q")), ["f.txt", "r"], f"{label}: listdir('p/q')")
    expect_eq(root.is_dir("p"), True, f"{label}: is_dir('p') (parent of a mount point)")
    expect_eq(root.is_dir("p/q"), True, f"{label}: is_dir('p/q')")
    expect_eq(root.is_dir("p/x"), False, f"{label}: is_dir('p/x')")
    expect_eq(root.is_dir("pq"), False, f"{label}: is_dir('pq')")
    check_dir(root, "p", label)
    check_dir(root, "p/q", label)
    check_dir(root, "p/q/r", label)
    expect_eq(spq.to_root_key("r/g.txt"), "p/q/r/g.txt", f"{label}: to_root_key")
    expect(spq.root_store() is root, f"{label}: root_store")


def scenario_two_levels(make_store, label):
    """A mount-point store mounted in a mount-point store: two levels of translation."""
    default, app, lib = make_store("default"), make_store("app"), make_store("lib")
    root = MountPointStore(default)
    web = MountPointStore()
    root.mount("web", web)
    web.mount("app", app)
    web.mount("x/lib", lib)

    put(root, "web/app/index.html", "idx")
    put(root, "web/x/lib/m.js", "mjs")
    put(root, "readme.txt", "readme")
    put(app, "css/s.css", "css")

    check_entry(root, "web/app/index.html", app, "index.html", "idx", label)
    check_entry(root, "web/x/lib/m.js", lib, "m.js", "mjs", label)
    check_entry(root, "web/app/css/s.css", app, "css/s.css", "css", label)
    check_entry(root, "readme.txt", default, "readme.txt", "readme", label)
    check_entry(web, "app/index.html", app, "index.html", "idx", label)
    check_entry(web, "x/lib/m.js", lib, "m.js", "mjs", label)

    expect_eq(app.to_root_key("index.html"), "web/app/index.html", f"{label}: app.to_root_key")
    expect_eq(app.to_root_key(""), "web/app", f"{label}: app.to_root_key('')")
    expect_eq(lib.to_root_key("m.js"), "web/x/lib/m.js", f"{label}: lib.to_root_key")
    expect_eq(web.to_root_key("app/index.html"), "web/app/index.html", f"{label}: web.to_root_key")
    expect_eq(web.to_root_key(""), "web", f"{label}: web.to_root_key('')")
    for part in (app, lib, web, default):
        expect(part.root_store() is root, f"{label}: root_store of {part!r}")
    for part, k in ((app, "index.html"), (app, "css/s.css"), (lib, "m.js")):
        rk = part.to_root_key(k)
        expect_eq(root.get_bytes(rk), part.get_bytes(k), f"{label}: via root key {rk!r}")
        expect_eq(root.get_metadata(rk)["key"], rk, f"{label}: metadata key via root key {rk!r}")

    expected_keys = {
        "web", "web/app", "web/app/index.html", "web/app/css", "web/app/css/s.css",
        "web/x/lib", "web/x/lib/m.js", "readme.txt",
    }
    expect_eq(sorted(set(root.keys())), sorted(expected_keys), f"{label}: keys()")
    expect_eq(root.listdir(""), ["readme.txt", "web"], f"{label}: listdir('')")
    expect_eq(root.listdir("web"), ["app", "x"], f"{label}: listdir('web')")
    expect_eq(sorted(root.listdir("web/app")), ["css", "index.html"], f"{label}: listdir('web/app')")
    for k in ("web", "web/app", "web/x/lib", "web/app/css"):
        check_dir(root, k, label)
    expect_eq(root.is_dir("web/app/nothing"), False, f"{label}: is_dir('web/app/nothing')")
    expect_raises(
        KeyNotFoundStoreException,
        lambda: root.get_metadata("web/app/nothing"),
        f"{label}: metadata web/app/nothing",
    )


def main():
    tmp = tempfile.mkdtemp(prefix="c14_check_")
    counter = [0]

    def memory(name):
        return MemoryStore()

    def directory(name):
        counter[0] += 1
        path = os.path.join(tmp, f"{counter[0]:03d}_{name}")
        os.makedirs(path)
        return FileStore(path)

    def mixed(name):
        counter[0] += 1
        return memory(name) if counter[0] % 2 else directory(name)

    try:
        for make_store, kind in ((memory, "memory"), (directory, "directory"), (mixed, "mixed")):
            scenario_siblings(make_store, f"siblings/{kind}")
            scenario_nested(make_store, f"nested/{kind}")
            scenario_no_default(make_store, f"no-default/{kind}")
            scenario_two_levels(make_store, f"two-levels/{kind}")
    except Violation as e:
        print(f"PROPERTY VIOLATED: {e}")
        return 1
    except Exception as e:
        traceback.print_exc()
        print(f"PROPERTY VIOLATED: unexpected {type(e).__name__}: {e}")
        return 1
    finally:
        shutil.rmtree(tmp, ignore_errors=True)
    print("PROPERTY HOLDS")
    return 0


if __name__ == "__main__":
    sys.exit(main())
