"""Standalone check of property C13: every cache back-end is a faithful key-value map of states.

Run as:  cd <repo root> && /venv/bin/python check.py
"""
import sys
import os

sys.path.insert(0, os.getcwd())

import io
import glob
import shutil
import tempfile
import contextlib

from liquer.state import State
from liquer.store import MemoryStore
from liquer.cache import (
    MemoryCache,
    FileCache,
    XORFileCache,
    FernetFileCache,
    StoreCache,
    SQLCache,
    SQLStringCache,
    CacheProxy,
)


class Violation(Exception):
    pass


def require(cond, msg):
    if not cond:
        raise Violation(msg)


KEYS = [
    "abc",
    "abc/def",
    "abc-def",
    "abc/def-x-y",
    "ns-x/a~.b~_c/d-1-2",
    "-R/data/file.txt/-/dr-csv",
]
VALUES = [
    123,
    "SECRETPLAINTEXTVALUE hello",
    {"a": 1, "b": [1, 2, 3]},
    [1, 2.5, "three"],
    b"\x00\x01SECRETPLAINBYTES\xff",
    3.25,
]


def make_state(key, value, attributes=None):
    state = State().with_data(value)
    state.query = key
    if attributes:
        for k, v in attributes.items():
            state.metadata["attributes"][k] = v
    return state


def check_present(cache, name, key, value):
    require(cache.contains(key), f"{name}: {key!r} not reported present after store")
    require(key in list(cache.keys()), f"{name}: {key!r} not listed among keys")
    got = cache.get(key)
    require(got is not None, f"{name}: get({key!r}) returned nothing")
    require(got.get() == value, f"{name}: get({key!r}) returned {got.get()!r} != {value!r}")
    require(got.query == key, f"{name}: state for {key!r} carries query {got.query!r}")
    metadata = cache.get_metadata(key)
    require(metadata is not None, f"{name}: get_metadata({key!r}) returned nothing")
    require(metadata.get("status") == "ready", f"{name}: metadata of {key!r} not ready")
    require(metadata.get("query") == key, f"{name}: metadata of {key!r} carries wrong query")


def check_absent(cache, name, key):
    require(not cache.contains(key), f"{name}: {key!r} reported present but should be absent")
    require(key not in list(cache.keys()), f"{name}: {key!r} listed but should be absent")
    require(cache.get(key) is None, f"{name}: get({key!r}) returned something for absent key")
    require(cache.get_metadata(key) is None, f"{name}: get_metadata({key!r}) not None for absent key")


def scenario(cache, name, attributes=None):
    expected = {}
    for key in KEYS:
        check_absent(cache, name, key)

    # store all keys, checking isolation after every operation
    for key, value in zip(KEYS, VALUES):
        result = cache.store(make_state(key, value, attributes))
        require(result is True, f"{name}: store({key!r}) returned {result!r}")
        expected[key] = value
        for k in KEYS:
            if k in expected:
                check_present(cache, name, k, expected[k])
            else:
                check_absent(cache, name, k)
    require(
        sorted(cache.keys()) == sorted(expected.keys()),
        f"{name}: keys() {sorted(cache.keys())!r} != {sorted(expected.keys())!r}",
    )

    # overwrite one key with a value of another type
    cache.store(make_state(KEYS[1], "overwritten", attributes))
    expected[KEYS[1]] = "overwritten"
    for k in KEYS:
        check_present(cache, name, k, expected[k])
    require(
        sorted(cache.keys()) == sorted(expected.keys()),
        f"{name}: keys() after overwrite {sorted(cache.keys())!r}",
    )

    # metadata-only write never makes data retrievable
    meta_key = "abc/def/meta-only"
    meta = dict(make_state(meta_key, None, attributes).metadata)
    meta["status"] = "evaluation"
    meta["query"] = meta_key
    require(cache.store_metadata(meta) is True, f"{name}: store_metadata failed")
    require(cache.get(meta_key) is None, f"{name}: metadata-only write made data retrievable")
    got_meta = cache.get_metadata(meta_key)
    require(got_meta is not None and got_meta.get("status") == "evaluation",
            f"{name}: metadata-only write not readable back")
    for k in KEYS:
        check_present(cache, name, k, expected[k])
    cache.remove(meta_key)
    check_absent(cache, name, meta_key)

    # remove keys one by one
    for key in [KEYS[0], KEYS[3], KEYS[5]]:
        cache.remove(key)
        del expected[key]
        for k in KEYS:
            if k in expected:
                check_present(cache, name, k, expected[k])
            else:
                check_absent(cache, name, k)
    # removing an absent key is harmless
    cache.remove(KEYS[0])
    for k in expected:
        check_present(cache, name, k, expected[k])

    # store again after remove
    cache.store(make_state(KEYS[0], 456, attributes))
    expected[KEYS[0]] = 456
    for k in expected:
        check_present(cache, name, k, expected[k])

    # clean
    cache.clean()
    for k in KEYS:
        check_absent(cache, name, k)
    require(list(cache.keys()) == [], f"{name}: keys() not empty after clean")


def check_no_plaintext(cache, name, directory):
    cache.store(make_state("SECRETQUERY/abc", "SECRETPLAINTEXTVALUE hello"))
    cache.store(make_state("SECRETQUERY/bytes", b"\x00\x01SECRETPLAINBYTES\xff"))
    meta = dict(State().metadata)
    meta["query"] = "SECRETQUERY/meta"
    meta["message"] = "SECRETMESSAGE"
    cache.store_metadata(meta)
    files = [f for f in glob.glob(os.path.join(directory, "*")) if os.path.isfile(f)]
    require(len(files) >= 5, f"{name}: expected cache files on disk, found {files!r}")
    for f in files:
        with open(f, "rb") as fh:
            raw = fh.read()
        for marker in (b"SECRETPLAINTEXTVALUE", b"SECRETPLAINBYTES", b"SECRETQUERY",
                       b"SECRETMESSAGE", b'"status"', b"type_identifier"):
            require(marker not in raw, f"{name}: plain bytes {marker!r} found in {f}")
    require(cache.get("SECRETQUERY/abc").get() == "SECRETPLAINTEXTVALUE hello",
            f"{name}: value not recovered")
    cache.clean()


def main():
    from cryptography.fernet import Fernet

    tmp = tempfile.mkdtemp(prefix="c13check_")
    counter = [0]

    def newdir():
        counter[0] += 1
        d = os.path.join(tmp, f"d{counter[0]}")
        os.makedirs(d)
        return d

    try:
        backends = [
            ("MemoryCache", lambda: MemoryCache()),
            ("FileCache", lambda: FileCache(newdir())),
            ("XORFileCache", lambda: XORFileCache(newdir(), b"\x2a\x17\x93")),
            ("FernetFileCache", lambda: FernetFileCache(newdir(), Fernet.generate_key())),
            ("StoreCache(path='')", lambda: StoreCache(MemoryStore(), path="")),
            ("StoreCache(path='xx')", lambda: StoreCache(MemoryStore(), path="xx")),
            ("StoreCache(flat)", lambda: StoreCache(MemoryStore(), path="xx", flat=True)),
            ("SQLCache", lambda: SQLCache.from_sqlite()),
            ("SQLStringCache", lambda: SQLStringCache.from_sqlite()),
        ]
        for name, factory in backends:
            scenario(factory(), name)

        # combinators
        scenario(MemoryCache() + MemoryCache(), "Memory+Memory")
        scenario(MemoryCache() + FileCache(newdir()), "Memory+File")
        scenario(CacheProxy(MemoryCache()), "CacheProxy(Memory)")
        scenario(CacheProxy(SQLCache.from_sqlite()), "CacheProxy(SQL)")
        scenario(MemoryCache().if_contains("hot") + FileCache(newdir()), "if_contains+File (cold)")
        scenario(
            MemoryCache().if_contains("hot") + FileCache(newdir()),
            "if_contains+File (hot)",
            attributes=dict(hot=True),
        )
        scenario(MemoryCache().if_not_contains("volatile") + SQLCache.from_sqlite(),
                 "if_not_contains+SQL (plain)")
        scenario(
            MemoryCache().if_not_contains("volatile") + SQLCache.from_sqlite(),
            "if_not_contains+SQL (volatile)",
            attributes=dict(volatile=True),
        )
        for attrs in (None, dict(tier="a"), dict(tier="b")):
            scenario(
                MemoryCache().if_attribute_equal("tier", "a")
                + StoreCache(MemoryStore(), path="xx").if_attribute_not_equal("tier", "a"),
                f"attribute_equal+attribute_not_equal {attrs}",
                attributes=attrs,
            )
        # a conditional wrapper that refuses must store nothing
        refusing = MemoryCache().if_attribute_equal("tier", "a")
        require(not refusing.store(make_state("abc", 1)), "refusing wrapper claimed to store")
        check_absent(refusing, "refusing wrapper", "abc")
        meta = dict(State().metadata)
        meta["query"] = "abc"
        require(not refusing.store_metadata(meta), "refusing wrapper claimed to store metadata")
        check_absent(refusing, "refusing wrapper", "abc")

        # obfuscating / encrypting caches leave no plain bytes on disk
        d = newdir()
        check_no_plaintext(XORFileCache(d, b"\x2a\x17\x93"), "XORFileCache", d)
        d = newdir()
        check_no_plaintext(FernetFileCache(d, Fernet.generate_key()), "FernetFileCache", d)
    finally:
        shutil.rmtree(tmp, ignore_errors=True)


if __name__ == "__main__":
    out = io.StringIO()
    try:
        with contextlib.redirect_stdout(out):
            main()
    except Violation as e:
        print(f"PROPERTY VIOLATED: {e}")
        sys.exit(1)
    except Exception as e:
        import traceback

        traceback.print_exc()
        print(f"PROPERTY VIOLATED: unexpected exception {type(e).__name__}: {e}")
        sys.exit(1)
    print("PROPERTY HOLDS")
    sys.exit(0)
