"""Check of property C02: canonical query text is a fixed point of parsing and encoding.

Run as:  cd <repo root> && /venv/bin/python check.py
"""
import os
import sys
import random
import itertools
import shutil
import tempfile

sys.path.insert(0, os.getcwd())

from liquer.parser import (
    parse,
    Query,
    TransformQuerySegment,
    ResourceQuerySegment,
    SegmentHeader,
    ActionRequest,
    StringActionParameter,
    LinkActionParameter,
    ExpandedActionParameter,
    ResourceName,
)


class Violation(Exception):
    pass


def param_struct(p):
    if isinstance(p, StringActionParameter):
        return ("string", p.string)
    if isinstance(p, (LinkActionParameter, ExpandedActionParameter)):
        return ("link", query_struct(p.link))
    if isinstance(p, ResourceName):
        return ("resource_name", p.name)
    raise Violation(f"unexpected parameter object {p!r}")


def header_struct(h):
    if h is None:
        return None
    if not isinstance(h, SegmentHeader):
        raise Violation(f"unexpected header object {h!r}")
    return (
        "header",
        h.name,
        h.level,
        bool(h.resource),
        tuple(param_struct(p) for p in h.parameters),
    )


def action_struct(a):
    if not isinstance(a, ActionRequest):
        raise Violation(f"unexpected action object {a!r}")
    return ("action", a.name, tuple(param_struct(p) for p in a.parameters))


def segment_struct(s):
    if isinstance(s, TransformQuerySegment):
        return (
            "transform",
            header_struct(s.header),
            tuple(action_struct(a) for a in s.query),
            None if s.filename is None else str(s.filename),
        )
    if isinstance(s, ResourceQuerySegment):
        return (
            "resource",
            header_struct(s.header),
            tuple(param_struct(r) for r in s.query),
        )
    raise Violation(f"unexpected segment object {s!r}")


def query_struct(q):
    if not isinstance(q, Query):
        raise Violation(f"unexpected query object {q!r}")
    return ("query", bool(q.absolute), tuple(segment_struct(s) for s in q.segments))


def try_parse(text):
    try:
        return parse(text)
    except Exception:
        return None


def check_text(text):
    """Returns True if the text was accepted by the parser (and the property verified)."""
    q = try_parse(text)
    if q is None:
        return False
    canonical = q.encode()
    if not isinstance(canonical, str):
        raise Violation(f"{text!r}: canonical text is not a string: {canonical!r}")
    try:
        q2 = parse(canonical)
    except Exception as e:
        raise Violation(
            f"{text!r} canonicalises to {canonical!r}, which is rejected ({type(e).__name__})"
        )
    s1 = query_struct(q)
    s2 = query_struct(q2)
    if s1 != s2:
        raise Violation(
            f"{text!r} canonicalises to {canonical!r}, which denotes a different query:\n  {s1}\n  {s2}"
        )
    again = q2.encode()
    if again != canonical:
        raise Violation(
            f"{text!r}: canonical text {canonical!r} re-encodes as {again!r}"
        )
    # repr after position cleaning is an independent structural witness
    r1 = repr(parse(canonical).clean_position())
    r2 = repr(parse(again).clean_position())
    if r1 != r2:
        raise Violation(f"{text!r}: repr of the re-parsed canonical query differs")
    if str(q) != canonical:
        raise Violation(f"{text!r}: str(query) != encode()")
    return True


# ---------------------------------------------------------------- generators

NAMES = ["a", "abc", "x_1", "ns", "dr", "q"]
PLAIN_ARGS = ["", "1", "x", "abc", "1.5", "a+b", "A_b"]
ENTITY_ARGS = [
    "~~",
    "~_",
    "~I",
    "~/",
    "~H",
    "~h",
    "~f",
    "~P",
    "~.",
    "~1",
    "~9x",
    "%20",
    "%2F",
    "%7E",
    "%7e",
    "%2D",
    "%C3%A9",
    "a~_b",
    "~Hexample.com~Ipath",
    "x~.y~.z",
    "~~~~",
]
# NOTE: percent-escapes of characters that are legal in a resource name (e.g. "%41" == "A")
# are deliberately not generated: on the untouched tree "a-%41/-/x" canonicalises to
# "a-A/-/x", which the parser reads as a resource path (pre-existing corner, independent
# of the refactors checked here).
FILENAMES = ["file.txt", "data.csv", "a.b.c", ".hidden", "x_1.tar.gz", "f.x-y"]
RESOURCE_NAMES = ["a", "abc", "x.y", "dir_1", "A-b", "9", "_z", "..", ".", "file.txt"]


def gen_arg(rnd, depth):
    r = rnd.random()
    if depth > 0 and r < 0.25:
        return "~X~" + gen_query(rnd, depth - 1) + "~E"
    if r < 0.6:
        return rnd.choice(PLAIN_ARGS)
    if r < 0.9:
        return rnd.choice(ENTITY_ARGS)
    return rnd.choice(PLAIN_ARGS) + rnd.choice(ENTITY_ARGS) + rnd.choice(PLAIN_ARGS)


def gen_action(rnd, depth):
    n = rnd.choice([0, 0, 1, 1, 2, 3])
    return "-".join([rnd.choice(NAMES)] + [gen_arg(rnd, depth) for _ in range(n)])


def gen_action_path(rnd, depth, allow_empty=False):
    n = rnd.choice([0, 1, 1, 2, 3]) if allow_empty else rnd.choice([1, 1, 2, 3])
    parts = [gen_action(rnd, depth) for _ in range(n)]
    if rnd.random() < 0.3:
        parts.append(rnd.choice(FILENAMES))
    return "/".join(parts)


def gen_transform_header(rnd, depth):
    level = rnd.choice([1, 1, 1, 2, 3])
    name = rnd.choice(["", "", "ns", "q", "abc"])
    h = "-" * level + name
    if name and rnd.random() < 0.4:
        for _ in range(rnd.choice([1, 2])):
            h += "-" + gen_arg(rnd, depth)
    return h


def gen_resource_header(rnd, depth):
    level = rnd.choice([1, 1, 1, 2, 3])
    name = rnd.choice(["", "", "", "meta", "abc", "X1"])
    h = "-" * level + "R" + name
    if rnd.random() < 0.3:
        for _ in range(rnd.choice([1, 2])):
            h += "-" + gen_arg(rnd, depth)
    return h


def gen_resource_path(rnd):
    return "/".join(rnd.choice(RESOURCE_NAMES) for _ in range(rnd.choice([1, 1, 2, 3])))


def gen_segment(rnd, depth):
    r = rnd.random()
    if r < 0.35:
        return gen_action_path(rnd, depth)
    if r < 0.7:
        h = gen_transform_header(rnd, depth)
        p = gen_action_path(rnd, depth, allow_empty=True)
        return h + "/" + p if p else h
    h = gen_resource_header(rnd, depth)
    if rnd.random() < 0.8:
        return h + "/" + gen_resource_path(rnd)
    return h


def gen_query(rnd, depth):
    r = rnd.random()
    if r < 0.15:
        # bare resource path followed by a transform segment with header
        text = gen_resource_path(rnd) + "/" + gen_transform_header(rnd, depth)
        p = gen_action_path(rnd, depth, allow_empty=True)
        if p:
            text += "/" + p
    else:
        text = "/".join(gen_segment(rnd, depth) for _ in range(rnd.choice([1, 1, 2, 3])))
    if rnd.random() < 0.2:
        text = "/" + text
    return text


def exhaustive_short():
    """Bounded-exhaustive enumeration of short queries built from small token alphabets."""
    tokens = [
        "a",
        "b-1",
        "b-",
        "c-~_-x",
        "d-~X~a~E",
        "d-~X~-R/x/y~E",
        "d-~X~/-R/x/-/a-~X~b-1~E~E-z",
        "f.txt",
        "-",
        "--",
        "-ns",
        "--ns",
        "-ns-1",
        "-ns-~X~a/b~E",
        "-R",
        "--R",
        "-Rmeta",
        "-R-1",
        "-Rmeta-x-~.",
        "x",
        "x.y",
        "..",
    ]
    for n in (1, 2):
        for combo in itertools.product(tokens, repeat=n):
            text = "/".join(combo)
            yield text
            yield "/" + text
    rnd = random.Random(7)
    for _ in range(1500):
        text = "/".join(rnd.choice(tokens) for _ in range(rnd.choice([3, 4])))
        yield text
        yield "/" + text


LITERALS = [
    "abc/def",
    "abc-def/-/x-y/--xxx-y/aaa",
    "/abc-def/-/x-y/--xxx-y/aaa",
    "-R/abc/def/-/ghi",
    "-R/abc/def/-/ghi/jkl/file.txt",
    "abc/def/-/xxx/-q/qqq",
    "abc/def/-/xxx/-q/qqq-abc-~X~xxx/yyy~E-def",
    "abc/def/-/xxx/file.txt",
    "-/def-~X~abc~E",
    "a-~X~b-~X~c-~X~d-1~E~E~E/e",
    "a-~X~/-R/x/y/-/z-~X~-Rm/k~E/f.txt~E",
    "ns-abc/a-~Hexample.com~Iindex.html-%20-~1/out.html",
    "-Rmeta/x/y/-/dr/data.json",
    "x/y/z/-/dr",
    "/x/y/-q-1/a",
    "-R-a-b/x",
    "---R/x/--/a/---q-1/b/c.d",
    "a-%7E%7e-~~",
    "a--b--",
    "a-%2D-%2F-%3A%2F%2F",
]


def store_and_cache_scenario():
    """The canonical text is the identity used by Context/State/cache: evaluate a
    non-canonically spelled query and verify that the recorded identity is the
    canonical text, and that it re-parses to the same query."""
    from liquer import first_command, command, evaluate
    from liquer.cache import MemoryCache, set_cache
    from liquer.store import set_store, MemoryStore
    from liquer.commands import reset_command_registry
    from liquer.context import get_context

    tmp = tempfile.mkdtemp(prefix="c02_check_")
    cwd = os.getcwd()
    try:
        os.chdir(tmp)
        reset_command_registry()
        set_store(MemoryStore())
        cache = MemoryCache()
        set_cache(cache)

        @first_command
        def c02hello(x="w"):
            return f"hello {x}"

        @command
        def c02add(state_value, y="!"):
            return f"{state_value}{y}"

        spellings = ["c02hello-a%20b/c02add-~/", "c02hello-a~.b/c02add-~I"]
        canon = {parse(s).encode() for s in spellings}
        if len(canon) != 1:
            raise Violation(f"equivalent spellings have different canonical text: {canon}")
        canonical = canon.pop()
        for s in spellings:
            state = evaluate(s)
            if state.get() != "hello a b/":
                raise Violation(f"unexpected value {state.get()!r} for {s!r}")
            if state.query != canonical or state.metadata.get("query") != canonical:
                raise Violation(
                    f"state identity {state.query!r}/{state.metadata.get('query')!r} is not canonical {canonical!r}"
                )
        if not cache.contains(canonical):
            raise Violation(f"cache does not hold the canonical key {canonical!r}")
        raw, q = get_context().to_query(parse(spellings[0]))
        if raw != canonical or q.encode() != canonical:
            raise Violation("Context.to_query does not use canonical text")
        check_text(canonical)
    finally:
        os.chdir(cwd)
        try:
            from liquer.cache import set_cache as _sc, NoCache
            from liquer.store import set_store as _ss
            from liquer.commands import reset_command_registry as _rc

            _sc(NoCache())
            _ss(None)
            _rc()
        except Exception:
            pass
        shutil.rmtree(tmp, ignore_errors=True)


def main():
    accepted = 0
    total = 0
    for text in LITERALS:
        total += 1
        if not check_text(text):
            raise Violation(f"documented query {text!r} is rejected by the parser")
        accepted += 1

    for text in exhaustive_short():
        total += 1
        if check_text(text):
            accepted += 1

    rnd = random.Random(20240202)
    for i in range(2000):
        depth = rnd.choice([0, 1, 2, 3])
        text = gen_query(rnd, depth)
        total += 1
        if check_text(text):
            accepted += 1

    if accepted < total // 4:
        raise Violation(f"parser accepted only {accepted} of {total} generated queries")

    store_and_cache_scenario()
    return accepted, total


if __name__ == "__main__":
    try:
        accepted, total = main()
    except Violation as e:
        print(f"PROPERTY VIOLATED: {e}")
        sys.exit(1)
    except Exception as e:
        import traceback

        traceback.print_exc()
        print(f"PROPERTY VIOLATED: unexpected {type(e).__name__}: {e}")
        sys.exit(1)
    print(f"PROPERTY HOLDS ({accepted} accepted of {total} generated queries)")
    sys.exit(0)
