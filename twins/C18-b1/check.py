"""Standalone check of property C18 (metadata truthfully describes every result).

Run as:  cd <repo root> && /venv/bin/python check.py
"""
import sys, os

sys.path.insert(0, os.getcwd())

import contextlib
import io
import shutil
import tempfile

PROBLEMS = []


def bad(msg):
    PROBLEMS.append(msg)


def expect(cond, msg):
    if not cond:
        bad(msg)


AGREE_FIELDS = [
    "query",
    "status",
    "is_error",
    "type_identifier",
    "data_characteristics",
    "commands",
    "parent_query",
    "argument_queries",
    "direct_subqueries",
    "filename",
    "extension",
    "mimetype",
    "attributes",
]


def has_message(metadata, text):
    for key in ("log", "child_log"):
        for entry in metadata.get(key, []) or []:
            if text in str(entry.get("message", "")) or text in str(
                entry.get("traceback", "")
            ):
                return True
    return False


def main():
    from liquer.commands import reset_command_registry, command_registry

    reset_command_registry()
    import liquer.ext.basic  # registers ns, let, ... into the fresh registry
    from liquer import command, first_command, get_context
    from liquer.cache import set_cache, MemoryCache, FileCache, NoCache
    from liquer.store import set_store, MemoryStore, get_store
    from liquer.state_types import type_identifier_of, data_characteristics
    from liquer.constants import mimetype_from_extension
    from liquer.parser import parse

    @first_command
    def hello():
        return "Hello"

    @command
    def greet(x, name="world"):
        return f"{x}, {name}!"

    @command(ABC="def")
    def attr1(x):
        return x + "1"

    @command(lower="x")
    def attr2(x):
        return x + "2"

    @command
    def boom(x):
        raise Exception("BOOM-MSG")

    @command(ns="other")
    def nsc(x):
        return dict(n=123)

    @command
    def sub(x, context=None):
        return context.evaluate("hello/greet-sub").get() + x

    @command
    def count(x):
        return len(x)

    # (query, ok, last action, ns, parent_query, links, subqueries, filename, attrs)
    SCENARIOS = [
        dict(q="hello", ok=True, action=["hello"], ns="root", parent=""),
        dict(
            q="hello/greet-a/attr1/attr2/out.txt",
            ok=True,
            action=["attr2"],
            ns="root",
            parent="hello/greet-a/attr1",
            filename="out.txt",
            attrs={"ABC": "def", "lower": "x"},
            no_attrs=[],
        ),
        dict(
            q="hello/attr2/attr1/greet/data.json",
            ok=True,
            action=["greet"],
            ns="root",
            parent="hello/attr2/attr1",
            filename="data.json",
            attrs={"ABC": "def"},
            no_attrs=["lower"],
        ),
        dict(
            q="hello/greet-~X~/hello~E",
            ok=True,
            action=["greet", "~X~/hello~E"],
            ns="root",
            parent="hello",
            links=["/hello"],
            subs=["/hello"],
        ),
        dict(
            q="hello/sub",
            ok=True,
            action=["sub"],
            ns="root",
            parent="hello",
            subs=["hello/greet-sub"],
        ),
        dict(
            q="hello/ns-other/nsc/x.json",
            ok=True,
            action=["nsc"],
            ns="other",
            parent="hello/ns-other",
            filename="x.json",
        ),
        dict(
            q="hello/count",
            ok=True,
            action=["count"],
            ns="root",
            parent="hello",
            storefn="result.json",
        ),
        dict(q="hello/boom/greet", ok=False, error="BOOM-MSG"),
        dict(q="hello/nosuchcommand", ok=False, error="Unknown action"),
    ]

    def check_returned(sc, state, label):
        q = sc["q"]
        m = state.metadata
        where = f"[{label}] {q}"
        expect(m.get("query") == parse(q).encode(), f"{where}: query is {m.get('query')!r}")
        expect(m.get("status") in ("ready", "error"), f"{where}: status {m.get('status')!r}")
        expect(
            (m.get("status") == "error") == bool(m.get("is_error")),
            f"{where}: status {m.get('status')!r} disagrees with is_error {m.get('is_error')!r}",
        )
        expect(bool(m.get("is_error")) == (not sc["ok"]), f"{where}: is_error {m.get('is_error')!r}")
        value = None
        try:
            with contextlib.redirect_stdout(io.StringIO()):
                value = state.get()
            got = True
        except Exception:
            got = False
        expect(got == sc["ok"], f"{where}: value obtainable={got} but expected ok={sc['ok']}")
        if not sc["ok"]:
            expect(has_message(m, sc["error"]), f"{where}: error message not in log/child_log")
            return
        expect(
            m.get("type_identifier") == type_identifier_of(value),
            f"{where}: type_identifier {m.get('type_identifier')!r} for {type(value)}",
        )
        expect(
            m.get("data_characteristics") == data_characteristics(value),
            f"{where}: data_characteristics {m.get('data_characteristics')!r}",
        )
        expect(
            m.get("commands", [None])[-1] == sc["action"],
            f"{where}: commands {m.get('commands')!r}",
        )
        ext = m.get("extended_commands", [{}])[-1]
        expect(ext.get("qcommand") == sc["action"], f"{where}: qcommand {ext.get('qcommand')!r}")
        expect(ext.get("command_name") == sc["action"][0], f"{where}: command_name")
        expect(ext.get("ns") == sc["ns"], f"{where}: ns {ext.get('ns')!r}")
        cmd_md = command_registry().metadata.get(sc["ns"], {}).get(sc["action"][0])
        if cmd_md is None:
            bad(f"{where}: command metadata not found in the registry")
        else:
            expect(
                ext.get("command_metadata", {}).get("version") == cmd_md.version,
                f"{where}: command version in extended_commands",
            )
            dep = m.get("dependencies", {}).get("commands", {})
            expect(
                dep.get(f"ns-{sc['ns']}/{sc['action'][0]}") == cmd_md.version,
                f"{where}: dependency version {dep!r}",
            )
        expect(m.get("parent_query") == sc["parent"], f"{where}: parent_query {m.get('parent_query')!r}")
        expect(
            [a.get("query") for a in m.get("argument_queries", [])] == sc.get("links", []),
            f"{where}: argument_queries {m.get('argument_queries')!r}",
        )
        expect(
            [a.get("query") for a in m.get("direct_subqueries", [])] == sc.get("subs", []),
            f"{where}: direct_subqueries {m.get('direct_subqueries')!r}",
        )
        fn = sc.get("filename")
        expect(m.get("filename") == fn, f"{where}: filename {m.get('filename')!r}")
        if fn is not None:
            extension = fn.split(".")[-1]
            expect(m.get("extension") == extension, f"{where}: extension {m.get('extension')!r}")
            expect(
                m.get("mimetype") == mimetype_from_extension(extension),
                f"{where}: mimetype {m.get('mimetype')!r}",
            )
        else:
            expect(m.get("extension") is None, f"{where}: extension {m.get('extension')!r}")
        attributes = m.get("attributes", {})
        expect(attributes.get("ns") == sc["ns"], f"{where}: attributes {attributes!r}")
        for k, v in sc.get("attrs", {}).items():
            expect(attributes.get(k) == v, f"{where}: attribute {k} in {attributes!r}")
        for k in sc.get("no_attrs", []):
            expect(k not in attributes, f"{where}: attribute {k} leaked into {attributes!r}")

    def check_copy(sc, state, copy, label):
        where = f"[{label}] {sc['q']}"
        if copy is None:
            bad(f"{where}: no kept copy of metadata")
            return
        if sc["ok"]:
            for f in AGREE_FIELDS:
                expect(
                    copy.get(f) == state.metadata.get(f),
                    f"{where}: kept copy differs on {f}: {copy.get(f)!r} != {state.metadata.get(f)!r}",
                )
            a = copy.get("extended_commands", [{}])[-1]
            b = state.metadata.get("extended_commands", [{}])[-1]
            for f in ("command_name", "ns", "qcommand"):
                expect(a.get(f) == b.get(f), f"{where}: kept copy differs on extended_commands.{f}")
            expect(
                a.get("command_metadata", {}).get("version")
                == b.get("command_metadata", {}).get("version"),
                f"{where}: kept copy differs on command version",
            )
        else:
            expect(copy.get("status") == "error", f"{where}: kept status {copy.get('status')!r}")
            expect(copy.get("is_error") is True, f"{where}: kept is_error {copy.get('is_error')!r}")
            expect(has_message(copy, sc["error"]), f"{where}: kept copy lacks the error message")

    def run(q, **kwargs):
        sink = io.StringIO()
        with contextlib.redirect_stdout(sink), contextlib.redirect_stderr(sink):
            return get_context().evaluate(q, **kwargs)

    tmp = tempfile.mkdtemp(prefix="c18check_")
    try:
        set_store(MemoryStore())
        caches = [
            ("nocache", lambda: NoCache()),
            ("memory", lambda: MemoryCache()),
            ("file", lambda: FileCache(os.path.join(tmp, "filecache"))),
        ]
        for cache_name, make in caches:
            cache = make()
            set_cache(cache)
            for sc in SCENARIOS:
                for temperature in ("cold", "warm"):
                    label = f"{cache_name}/{temperature}"
                    state = run(sc["q"])
                    check_returned(sc, state, label)
                    if cache_name != "nocache":
                        check_copy(sc, state, cache.get_metadata(sc["q"]), label)

        # saved under a store key
        for cache_name, make in caches[:2]:
            set_cache(make())
            store = MemoryStore()
            set_store(store)
            for i, sc in enumerate(SCENARIOS):
                fn = sc.get("filename") or sc.get("storefn", "result.txt")
                key = f"dir{i}/{fn}"
                for temperature in ("cold", "warm"):
                    label = f"store/{cache_name}/{temperature}"
                    state = run(sc["q"], store_key=key)
                    check_returned(sc, state, label)
                    try:
                        kept = store.get_metadata(key)
                    except Exception as e:
                        kept = None
                    check_copy(sc, state, kept, label)
                    if sc["ok"]:
                        expect(store.contains(key), f"[{label}] {sc['q']}: no data under {key}")
    finally:
        set_cache(None)
        shutil.rmtree(tmp, ignore_errors=True)

    if PROBLEMS:
        print("PROPERTY VIOLATED: " + " | ".join(PROBLEMS[:10]))
        return 1
    print("PROPERTY HOLDS")
    return 0


if __name__ == "__main__":
    sys.exit(main())
