"""Standalone check of property C11: state types serialize/deserialize losslessly.

Run as:  cd <repo root> && /venv/bin/python check.py
"""
import os
import sys

sys.path.insert(0, os.getcwd())

import shutil
import tempfile
import traceback


class Point(object):
    """Arbitrary picklable object (module-level so that pickle can find it)."""

    def __init__(self, x, y, tags=None):
        self.x = x
        self.y = y
        self.tags = tags if tags is not None else []

    def __eq__(self, other):
        return (
            type(other) is Point
            and self.x == other.x
            and self.y == other.y
            and self.tags == other.tags
        )

    def __repr__(self):
        return f"Point({self.x!r}, {self.y!r}, {self.tags!r})"


FAILURES = []


def fail(msg):
    FAILURES.append(msg)


def values_equal(a, b):
    try:
        import pandas as pd

        if isinstance(a, pd.DataFrame) or isinstance(b, pd.DataFrame):
            if not (isinstance(a, pd.DataFrame) and isinstance(b, pd.DataFrame)):
                return False
            return (
                list(a.columns) == list(b.columns)
                and list(a.dtypes) == list(b.dtypes)
                and a.equals(b)
            )
    except ImportError:
        pass
    if type(a) is not type(b):
        return False
    if isinstance(a, dict):
        if list(a.keys()) != list(b.keys()):
            return False
        return all(values_equal(a[k], b[k]) for k in a)
    if isinstance(a, (list, tuple)):
        return len(a) == len(b) and all(values_equal(x, y) for x, y in zip(a, b))
    return a == b


def roundtrip(label, value, extension, expected_type_id, workdir):
    """Encode, write to a file, read back, decode; compare."""
    from liquer.state_types import (
        encode_state_data,
        decode_state_data,
        state_types_registry,
        type_identifier_of,
    )

    try:
        b, mime, type_id = encode_state_data(value, extension)
        if not isinstance(b, bytes):
            fail(f"{label}: encoded form is {type(b)}, not bytes")
            return
        if not isinstance(mime, str):
            fail(f"{label}: mime type is {mime!r}")
        if type_id != expected_type_id:
            fail(f"{label}: type identifier {type_id!r}, expected {expected_type_id!r}")
        if type_identifier_of(value) != type_id:
            fail(f"{label}: type_identifier_of disagrees with encode_state_data")
        # decode_state_data resolves the identifier through the registry's get()
        st = state_types_registry().get(type_id)
        if st is None or st.identifier() != type_id:
            fail(f"{label}: type identifier {type_id!r} does not select a state type")
        # through a file, as caches / stores do
        path = os.path.join(workdir, "data.bin")
        with open(path, "wb") as f:
            f.write(b)
        with open(path, "rb") as f:
            b2 = f.read()
        decoded = decode_state_data(b2, type_id, extension)
        if not values_equal(value, decoded):
            fail(f"{label}: decoded {decoded!r} != original {value!r}")
        # encoding must be deterministic enough to be re-decodable again
        b3, mime3, type_id3 = encode_state_data(decoded, extension)
        if type_id3 != type_id or mime3 != mime:
            fail(f"{label}: re-encoding changed type id / mime")
        if not values_equal(value, decode_state_data(b3, type_id3, extension)):
            fail(f"{label}: second round trip differs")
    except Exception:
        fail(f"{label}: exception {traceback.format_exc()}")


def check_copy(label, value, mutate):
    from liquer.state_types import copy_state_data
    from copy import deepcopy

    try:
        reference = deepcopy(value)
        c = copy_state_data(value)
        if not values_equal(value, c):
            fail(f"{label}: copy {c!r} != original {value!r}")
            return
        if mutate is not None:
            mutate(c)
            if not values_equal(value, reference):
                fail(f"{label}: mutating the copy changed the original")
    except Exception:
        fail(f"{label}: exception {traceback.format_exc()}")


def main():
    workdir = tempfile.mkdtemp(prefix="c11_check_")
    try:
        from liquer.state_types import (
            encode_state_data,
            decode_state_data,
            state_types_registry,
        )

        # ---- bytes
        for i, v in enumerate([b"", b"abc", bytes(range(256)), b"\x00\n\r\xff" * 10]):
            roundtrip(f"bytes[{i}] default", v, None, "bytes", workdir)
            roundtrip(f"bytes[{i}] b", v, "b", "bytes", workdir)
            roundtrip(f"bytes[{i}] bin", v, "bin", "bytes", workdir)

        # ---- text
        for i, v in enumerate(["", "hello", "line1\nline2\r\n", "žluťoučký ☃ \U0001f600", '"q" {a: 1}']):
            roundtrip(f"text[{i}] default", v, None, "text", workdir)
            roundtrip(f"text[{i}] txt", v, "txt", "text", workdir)
            roundtrip(f"text[{i}] html", v, "html", "text", workdir)
            roundtrip(f"text[{i}] json-ext", v, "json", "text", workdir)

        # ---- None / int / float
        for i, v in enumerate([None, 0, 1, -17, 2 ** 70, 0.0, 1.5, -2.25e-30, 1e300]):
            roundtrip(f"generic[{i}] default", v, None, "generic", workdir)
            roundtrip(f"generic[{i}] json", v, "json", "generic", workdir)

        # ---- dictionaries, JSON format
        json_dicts = [
            {},
            {"a": 1, "b": 2.5, "c": None, "d": "text", "e": True},
            {"": "empty key", " spaced key ": 1, 'quote"key': 2, "back\\slash": 3,
             "new\nline": 4, "colon:key": 5, "comma,key": 6, "unič☃": 7,
             "a-very-long-key-that-is-longer-than-twenty-characters": 8},
            {"nested": {"x": [1, 2, {"y": None}], "z": {}}, "list": [], "s": ""},
        ]
        for i, v in enumerate(json_dicts):
            roundtrip(f"dict[{i}] default", v, None, "dictionary", workdir)
            roundtrip(f"dict[{i}] json", v, "json", "dictionary", workdir)
            roundtrip(f"dict[{i}] djson", v, "djson", "dictionary", workdir)

        # ---- dictionaries, line oriented format with non-JSON members
        djson_dicts = [
            {"bytes": b"\x00\x01\xff", "empty-bytes": b"", "tuple": (1, "two", 3.0),
             "set": {1, 2, 3}, "obj": Point(1, 2, ["t"]), "list": [1, [2, (3,)]],
             "dict": {"in": {"ner": [1, 2]}}, "int": 5, "float": 0.25, "none": None,
             "str": 'with "quotes", commas, and\nnewlines', "bool": False,
             'key "quoted"': Point(None, "y"), "": b"empty key",
             "a-very-long-key-that-is-longer-than-twenty-characters": (None,)},
            {"only": Point(0, 0)},
        ]
        for i, v in enumerate(djson_dicts):
            roundtrip(f"djson-dict[{i}]", v, "djson", "dictionary", workdir)

        # djson text is one member per line (line oriented format)
        b, mime, tid = encode_state_data({"a": 1, "b": b"x", "c": "s"}, "djson")
        lines = b.decode("utf-8").split("\n")
        if not (lines[0] == "{" and lines[-1] == "}" and len(lines) == 5):
            fail(f"djson layout unexpected: {b!r}")
        b, mime, tid = encode_state_data({}, "djson")
        if decode_state_data(b, tid, "djson") != {}:
            fail("empty djson dictionary does not round trip")

        # ---- pickle (default state type)
        pickles = [
            Point(1.5, "a", [1, 2]),
            [1, "a", None, (2, 3)],
            [],
            (1, 2),
            {1, 2},
            True,
            complex(1, 2),
            [Point(1, 2), {"k": Point(3, 4)}],
        ]
        for i, v in enumerate(pickles):
            roundtrip(f"pickle[{i}] default", v, None, "pickle", workdir)
            roundtrip(f"pickle[{i}] pickle", v, "pickle", "pickle", workdir)
            roundtrip(f"pickle[{i}] pkl", v, "pkl", "pickle", workdir)
        roundtrip("pickle list json", [1, "a", None, [2.5, {"k": []}]], "json", "pickle", workdir)

        # ---- unsupported extensions are refused
        for v in ({"a": 1}, 1, [1]):
            try:
                encode_state_data(v, "no-such-extension")
                fail(f"unsupported extension accepted for {v!r}")
            except Exception:
                pass

        # ---- data frames
        try:
            import pandas as pd
            import numpy as np
            import liquer.ext.lq_pandas  # registers the dataframe state type
        except ImportError:
            pd = None
        if pd is not None:
            frames = [
                pd.DataFrame(
                    dict(
                        i=[1, 2, 3],
                        f=[0.5, np.nan, -1e10],
                        s=["a", "", 'q"uo,te\n'],
                        b=[True, False, True],
                        t=pd.to_datetime(["2020-01-01 00:00:00", "2021-06-30 12:00:01", "1999-12-31 00:00:00"]),
                    )
                ),
                pd.DataFrame(dict(a=[1], b=["x"])),
                pd.DataFrame(dict(a=np.array([], dtype="int64"), b=np.array([], dtype="float64"))),
            ]
            exts = [None, "pickle", "pkl"]
            try:
                import pyarrow  # noqa

                exts += ["parquet", "feather"]
            except ImportError:
                pass
            for i, df in enumerate(frames):
                for ext in exts:
                    roundtrip(f"dataframe[{i}] {ext}", df, ext, "dataframe", workdir)
            # csv/tsv for a plain frame
            plain = pd.DataFrame(dict(a=[1, 2, 3], b=[0.5, 1.5, 2.5], c=["x", "y", "z"]))
            for ext in ("csv", "tsv"):
                roundtrip(f"dataframe plain {ext}", plain, ext, "dataframe", workdir)
            # data frame inside a line-oriented dictionary
            roundtrip("djson with dataframe", {"df": frames[0], "n": 1}, "djson", "dictionary", workdir)

            def mutate_df(c):
                c.loc[0, "i"] = 1000

            check_copy("copy dataframe", frames[0], mutate_df)

        # ---- copies share no mutable structure
        def mutate_dict(c):
            c["nested"]["x"].append("changed")
            c["new"] = 1

        check_copy("copy dict", {"nested": {"x": [1, 2]}, "s": "t"}, mutate_dict)

        def mutate_list(c):
            c[1].append(99)
            c.append("new")

        check_copy("copy list", [1, [2, 3], Point(1, 2)], mutate_list)

        def mutate_obj(c):
            c.tags.append("changed")
            c.x = "other"

        check_copy("copy object", Point(1, 2, ["a"]), mutate_obj)
        check_copy("copy bytes", b"abc\x00", None)
        check_copy("copy text", "some text ☃", None)
        check_copy("copy empty text", "", None)
        check_copy("copy none", None, None)
        check_copy("copy int", 12345678901234567890, None)
        check_copy("copy float", 3.25, None)

        # ---- every registered identifier is resolvable to itself
        reg = state_types_registry()
        for key, st in list(reg.state_types_dictionary.items()):
            found = reg.from_type_identifier(st.identifier())
            if found is None or type(found) is not type(st):
                fail(f"identifier {st.identifier()!r} not resolvable")
            if reg.get(st.identifier()).identifier() != st.identifier():
                fail(f"registry.get({st.identifier()!r}) gives a different state type")
    except Exception:
        fail("unexpected exception: " + traceback.format_exc())
    finally:
        shutil.rmtree(workdir, ignore_errors=True)

    if FAILURES:
        print("PROPERTY VIOLATED: " + " | ".join(FAILURES[:10]))
        return 1
    print("PROPERTY HOLDS")
    return 0


if __name__ == "__main__":
    sys.exit(main())
