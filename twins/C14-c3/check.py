"""Standalone check of property C14 (mount-point store routing / key translation / union views).

Run as:  cd <repo root> && /venv/bin/python check.py
"""
import os
import sys
import shutil
import tempfile

sys.path.insert(0, os.getcwd())

from liquer.store import (  # noqa: E402
    MountPointStore,
    MemoryStore,
    FileStore,
    PrefixStore,
    KeyNotFoundStoreException,
    KeyRouteNotFoundStoreException,
    KeyNotSupportedStoreException,
)


class Violation(Exception):
    pass


def expect(cond, msg):
    if not cond:
        raise Violation(msg)


def expect_eq(a, b, msg):
    if a != b:
        raise Violation(f"{msg}: got {a!r}, expected {b!r}")


def put(store, key, data):
    store.store(key, data, {})


def in_mount(key, prefix):
    return key == prefix or key.startswith(prefix + "/")


def model_route(mounts, key):
    """Index of the mount serving key (last matching mount wins) or None for default."""
    for i in range(len(mounts) - 1, -1, -1):
        if in_mount(key, mounts[i][0]):
            return i
    return None


def check_composite(name, make_store, tmp):
    """Generic scenario: builds a mount table, performs a history of operations
    through the composite and compares composite against parts."""
    configs = [
        dict(default=False, mounts=[]),
        dict(default=True, mounts=[]),
        dict(default=True, mounts=["a"]),
        dict(default=False, mounts=["a"]),
        dict(default=True, mounts=["a", "b"]),
        dict(default=False, mounts=["a", "b", "c/d"]),
        dict(default=True, mounts=["a", "a/b"]),
        dict(default=True, mounts=["x/y", "x/z", "q"]),
        dict(default=True, mounts=["a", "a/b", "a/b/c"]),
        dict(default=False, mounts=["m/n", "m/n/o"]),
    ]
    candidate_keys = [
        "f.txt",
        "a/f.txt",
        "a/s/g.txt",
        "a/b/h.txt",
        "a/b/c/i.txt",
        "b/j.txt",
        "c/d/k.txt",
        "c/l.txt",
        "x/y/m.txt",
        "x/z/n.txt",
        "x/o.txt",
        "q/p.txt",
        "m/n/r.txt",
        "m/n/o/s.txt",
        "ab/t.txt",
        "other/u/v.txt",
    ]
    for ci, cfg in enumerate(configs):
        label = f"{name} config {ci} {cfg}"
        default = make_store(tmp, f"{name}_{ci}_default") if cfg["default"] else None
        parts = [
            (p, make_store(tmp, f"{name}_{ci}_{p.replace('/', '_')}"))
            for p in cfg["mounts"]
        ]
        root = MountPointStore(default)
        for p, s in parts:
            root.mount(p, s)

        written = {}
        for key in candidate_keys:
            idx = model_route(parts, key)
            data = f"data:{key}".encode("utf-8")
            if idx is None and default is None:
                try:
                    put(root, key, data)
                except KeyRouteNotFoundStoreException:
                    pass
                else:
                    raise Violation(f"{label}: store({key}) should have no route")
                continue
            put(root, key, data)
            written[key] = data

        # remove one key through the composite and overwrite another (history)
        for key in list(written):
            if key.endswith("g.txt"):
                root.remove(key)
                del written[key]
            if key.endswith("f.txt"):
                written[key] = b"second " + written[key]
                put(root, key, written[key])

        # --- routing + prefix stripping: every key is in exactly the expected part
        for key, data in written.items():
            idx = model_route(parts, key)
            expect_eq(root.get_bytes(key), data, f"{label}: get_bytes({key})")
            expect(root.contains(key), f"{label}: contains({key})")
            expect(not root.is_dir(key), f"{label}: is_dir({key}) should be False")
            md = root.get_metadata(key)
            expect_eq(md["key"], key, f"{label}: metadata key of {key}")
            expect_eq(
                md["fileinfo"]["name"], key.split("/")[-1], f"{label}: name of {key}"
            )
            expect_eq(md["fileinfo"]["is_dir"], False, f"{label}: is_dir md {key}")
            for j, (p, s) in enumerate(parts):
                sub = key[len(p) + 1 :] if in_mount(key, p) else None
                if j == idx:
                    expect(s.contains(sub), f"{label}: part {p} lacks {sub}")
                    expect_eq(s.get_bytes(sub), data, f"{label}: part {p} bytes {sub}")
                    expect_eq(
                        s.get_metadata(sub)["key"], sub, f"{label}: part md key {sub}"
                    )
                    # sub-store key -> root key
                    expect_eq(s.to_root_key(sub), key, f"{label}: to_root_key({sub})")
                    expect(s.root_store() is root, f"{label}: root_store of part {p}")
                    expect_eq(
                        s.root_store().get_bytes(s.to_root_key(sub)),
                        s.get_bytes(sub),
                        f"{label}: root access via to_root_key({sub})",
                    )
                else:
                    expect(
                        sub is None or sub not in list(s.keys()),
                        f"{label}: key {key} leaked to part {p}",
                    )
            if default is not None:
                if idx is None:
                    expect_eq(default.get_bytes(key), data, f"{label}: default {key}")
                    expect_eq(default.to_root_key(key), key, f"{label}: default root key")
                    expect(default.root_store() is root, f"{label}: default root_store")
                else:
                    expect(
                        key not in list(default.keys()),
                        f"{label}: key {key} leaked to default",
                    )

        # --- keys(): union of re-prefixed parts, mount points present
        expected = set()
        for j, (p, s) in enumerate(parts):
            if model_route(parts, p) == j:
                expected.add(p)
            for k in s.keys():
                full = p + "/" + k
                if model_route(parts, full) == j:
                    expected.add(full)
        # mount points are always listed, even when shadowed by an outer one
        for p, _ in parts:
            expected.add(p)
        if default is not None:
            for k in default.keys():
                if model_route(parts, k) is None:
                    expected.add(k)
        got = list(root.keys())
        expect_eq(set(got), expected, f"{label}: keys()")
        expect_eq(len(got), len(set(got)), f"{label}: keys() has duplicates {sorted(got)}")
        for key in written:
            expect(key in expected, f"{label}: written key {key} missing in keys()")

        # --- directory flags, containment and listdir from the union
        all_keys = set(expected)
        dirs = {""}
        for k in all_keys:
            comps = k.split("/")
            for n in range(1, len(comps)):
                dirs.add("/".join(comps[:n]))
        for p, _ in parts:
            dirs.add(p)
        for k in all_keys:
            if k not in written:
                dirs.add(k)
        for d in sorted(dirs):
            expect(root.is_dir(d), f"{label}: is_dir({d!r}) should be True")
            children = set()
            for k in all_keys | dirs:
                if k == "":
                    continue
                parent = "/".join(k.split("/")[:-1])
                if parent == d:
                    children.add(k.split("/")[-1])
            expect_eq(root.listdir(d), sorted(children), f"{label}: listdir({d!r})")
            if d != "":
                md = root.get_metadata(d)
                expect_eq(md["key"], d, f"{label}: dir metadata key {d!r}")
                expect_eq(md["fileinfo"]["is_dir"], True, f"{label}: dir md is_dir {d!r}")
                expect_eq(
                    root.listdir_keys(d),
                    [d + "/" + c for c in sorted(children)],
                    f"{label}: listdir_keys({d!r})",
                )
        for p, _ in parts:
            expect(root.contains(p), f"{label}: contains(mount point {p})")
            expect(root.is_dir(p), f"{label}: is_dir(mount point {p})")

        # --- absent keys
        for key in ["nope.txt", "a/nope.txt", "a/b/nope.txt", "zz/y/nope.txt"]:
            if key in written:
                continue
            idx = model_route(parts, key)
            if idx is None and default is None:
                try:
                    root.contains(key)
                except KeyRouteNotFoundStoreException:
                    pass
                else:
                    raise Violation(f"{label}: contains({key}) should have no route")
                expect(not root.is_dir(key), f"{label}: is_dir({key}) no route")
            else:
                expect(not root.contains(key), f"{label}: contains({key}) should be False")
                expect(not root.is_dir(key), f"{label}: is_dir({key}) should be False")
            try:
                root.get_metadata(key)
            except KeyNotFoundStoreException:
                pass
            else:
                raise Violation(f"{label}: get_metadata({key}) should raise")


def check_prefix_store():
    sub = MemoryStore()
    ps = PrefixStore(sub, "p/q")
    expect_eq(ps.translate_key("p/q"), "", "translate_key mount point")
    expect_eq(ps.translate_key("p/q/r/s"), "r/s", "translate_key inside")
    expect_eq(ps.translate_key("r/s", inverse=True), "p/q/r/s", "inverse")
    expect_eq(ps.translate_key("", inverse=True), "p/q", "inverse empty")
    expect_eq(ps.translate_key(None, inverse=True), "p/q", "inverse None")
    for bad in ["p/qq/r", "p", "x", "", "p/q2"]:
        try:
            ps.translate_key(bad)
        except KeyNotSupportedStoreException:
            pass
        else:
            raise Violation(f"translate_key({bad!r}) should raise KeyNotSupported")
        expect(not ps.is_supported(bad), f"is_supported({bad!r}) should be False")
    expect(ps.is_supported("p/q/x"), "is_supported inside")
    expect(ps.contains("p/q") and ps.is_dir("p/q"), "prefix itself is a directory")
    ps.store("p/q/d/x.txt", b"x", {})
    expect_eq(sub.get_bytes("d/x.txt"), b"x", "prefix store writes stripped key")
    expect_eq(sorted(ps.keys()), ["p/q/d", "p/q/d/x.txt"], "prefix store keys")
    expect_eq(ps.get_metadata("p/q/d/x.txt")["key"], "p/q/d/x.txt", "prefix md key")
    expect_eq(sub.to_root_key("d/x.txt"), "p/q/d/x.txt", "sub to_root_key")
    expect_eq(ps.listdir("p/q"), ["d"], "prefix listdir at mount point")
    expect_eq(ps.listdir("p/q/d"), ["x.txt"], "prefix listdir")


def check_two_level():
    """Mount-point store mounted in a mount-point store: metadata key through two
    levels of translation, remount replacing a mount, umount."""
    inner_default = MemoryStore()
    inner = MountPointStore(inner_default)
    leaf = MemoryStore()
    inner.mount("leaf", leaf)
    outer_default = MemoryStore()
    outer = MountPointStore(outer_default)
    outer.mount("web", inner)

    put(outer, "web/leaf/deep/a.txt", b"A")
    put(outer, "web/b.txt", b"B")
    put(outer, "c.txt", b"C")
    expect_eq(leaf.get_bytes("deep/a.txt"), b"A", "two-level: leaf bytes")
    expect_eq(inner_default.get_bytes("b.txt"), b"B", "two-level: inner default")
    expect_eq(outer_default.get_bytes("c.txt"), b"C", "two-level: outer default")
    expect_eq(
        outer.get_metadata("web/leaf/deep/a.txt")["key"],
        "web/leaf/deep/a.txt",
        "two-level: metadata key",
    )
    expect_eq(
        inner.get_metadata("leaf/deep/a.txt")["key"], "leaf/deep/a.txt", "inner md key"
    )
    expect_eq(leaf.to_root_key("deep/a.txt"), "web/leaf/deep/a.txt", "two-level root key")
    expect_eq(inner_default.to_root_key("b.txt"), "web/b.txt", "inner default root key")
    expect(leaf.root_store() is outer, "two-level root store")
    expect_eq(
        sorted(outer.keys()),
        sorted(
            [
                "web",
                "web/leaf",
                "web/leaf/deep",
                "web/leaf/deep/a.txt",
                "web/b.txt",
                "c.txt",
            ]
        ),
        "two-level keys",
    )
    expect_eq(outer.listdir(""), ["c.txt", "web"], "two-level listdir root")
    expect_eq(outer.listdir("web"), ["b.txt", "leaf"], "two-level listdir web")
    expect_eq(outer.listdir("web/leaf"), ["deep"], "two-level listdir leaf")
    expect(outer.is_dir("web/leaf") and outer.is_dir("web/leaf/deep"), "two-level dirs")
    expect_eq(outer.get_metadata("web/leaf")["key"], "web/leaf", "md key at inner mount")
    expect_eq(outer.get_metadata("web")["key"], "web", "md key at outer mount")

    # remount replaces
    leaf2 = MemoryStore()
    inner.mount("leaf", leaf2)
    expect(not outer.contains("web/leaf/deep/a.txt"), "remount hides old store")
    expect(leaf.parent_store is None or leaf.parent_store.parent_store is None,
           "old store detached")
    put(outer, "web/leaf/n.txt", b"N")
    expect_eq(leaf2.get_bytes("n.txt"), b"N", "remount routes to new store")
    expect_eq(len(inner.routing_table), 1, "remount keeps single entry")

    # umount falls back to the default
    inner.umount("leaf")
    expect(not outer.contains("web/leaf/n.txt"), "umount hides store")
    put(outer, "web/leaf/z.txt", b"Z")
    expect_eq(inner_default.get_bytes("leaf/z.txt"), b"Z", "after umount default serves")

    # mount without a default: mount point ancestors are directories
    nd = MountPointStore()
    nd.mount("k/l", MemoryStore())
    expect(nd.is_dir("k") and nd.is_dir("k/l") and nd.is_dir(""), "ancestor dirs")
    expect(not nd.is_dir("kk"), "non-ancestor is not dir")
    expect_eq(nd.listdir(""), ["k"], "no default listdir root")
    expect_eq(nd.listdir("k"), ["l"], "no default listdir ancestor")
    expect_eq(nd.get_metadata("k")["key"], "k", "ancestor metadata key")
    expect_eq(nd.get_metadata("k")["fileinfo"]["is_dir"], True, "ancestor md is_dir")
    expect_eq(list(nd.keys()), ["k/l"], "no default keys")
    try:
        nd.route_to("zzz")
    except KeyRouteNotFoundStoreException as e:
        expect_eq(e.key, "zzz", "route exception key")
    else:
        raise Violation("route_to without default should raise")


def check_inner_before_outer():
    """Last matching mount wins: an outer mount added after an inner one shadows it."""
    a, ab, d = MemoryStore(), MemoryStore(), MemoryStore()
    root = MountPointStore(d)
    root.mount("a/b", ab)
    root.mount("a", a)
    put(root, "a/b/x.txt", b"X")
    expect_eq(a.get_bytes("b/x.txt"), b"X", "later outer mount wins")
    expect_eq(list(ab.keys()), [], "shadowed inner mount untouched")
    got = list(root.keys())
    # (outside the quantifier proper: duplicates are tolerated here, compare as a set)
    expect_eq(sorted(set(got)), ["a", "a/b", "a/b/x.txt"], "shadow keys")
    expect_eq(root.listdir("a"), ["b"], "shadow listdir")
    expect(root.route_to("a/b") is root.routing_table[1][1], "last matching mount wins for a/b")
    expect(root.route_to("a") is root.routing_table[1][1], "exact mount key routes to it")


def memory_factory(tmp, name):
    return MemoryStore()


def file_factory(tmp, name):
    path = os.path.join(tmp, name)
    os.makedirs(path, exist_ok=True)
    return FileStore(path)


def check_global_helpers(tmp):
    import liquer.store as st

    old_store, old_web = st.STORE, st.WEB_STORE
    try:
        st.STORE = None
        st.WEB_STORE = None
        path = os.path.join(tmp, "global_mount")
        os.makedirs(path)
        st.mount("g", MemoryStore())
        st.mount_folder("h/i", path)
        store = st.get_store()
        store.store("g/one.txt", b"1", {})
        store.store("h/i/two.txt", b"2", {})
        expect_eq(store.get_bytes("g/one.txt"), b"1", "global mount bytes")
        expect(os.path.exists(os.path.join(path, "two.txt")), "mount_folder file placement")
        with open(os.path.join(path, "two.txt"), "rb") as f:
            expect_eq(f.read(), b"2", "mount_folder file content")
        expect_eq(store.get_metadata("h/i/two.txt")["key"], "h/i/two.txt", "global md key")
        web = st.get_web_store()
        st.web_mount("app", MemoryStore())
        store.store("web/app/index.html", b"<html/>", {})
        expect_eq(web.get_bytes("app/index.html"), b"<html/>", "web mount bytes")
        expect_eq(
            web.to_root_key("app/index.html"), "web/app/index.html", "web to_root_key"
        )
        expect_eq(store.listdir(""), ["g", "h", "web"], "global listdir")
        expect_eq(store.listdir("web"), ["app"], "global listdir web")
    finally:
        st.STORE, st.WEB_STORE = old_store, old_web


def main():
    tmp = tempfile.mkdtemp(prefix="c14check_")
    try:
        check_prefix_store()
        check_composite("mem", memory_factory, tmp)
        check_composite("file", file_factory, tmp)
        check_two_level()
        check_inner_before_outer()
        check_global_helpers(tmp)
    except Violation as e:
        print(f"PROPERTY VIOLATED: {e}")
        return 1
    except Exception as e:  # unexpected exception is also a violation
        import traceback

        traceback.print_exc()
        print(f"PROPERTY VIOLATED: unexpected {type(e).__name__}: {e}")
        return 1
    finally:
        shutil.rmtree(tmp, ignore_errors=True)
    print("PROPERTY HOLDS")
    return 0


if __name__ == "__main__":
    sys.exit(main())
