"""Check of property C18: metadata truthfully describes every result.

Run as:  cd <repo root> && /venv/bin/python check.py
Exits 0 printing "PROPERTY HOLDS", or 1 printing "PROPERTY VIOLATED: ...".
"""
import os
import sys

sys.path.insert(0, os.getcwd())

import contextlib
import io
import shutil
import tempfile
import traceback

PROBLEMS = []


def problem(msg):
    PROBLEMS.append(msg)


def expect(cond, msg):
    if not cond:
        problem(msg)


def run_all():
    import liquer.ext.basic  # noqa - registers nothing harmful, mirrors ordinary use
    from liquer.commands import reset_command_registry, command, first_command, callable_hash
    from liquer.cache import (
        MemoryCache,
        NoCache,
        FileCache,
        SQLCache,
        set_cache,
        get_cache,
    )
    from liquer.context import get_context
    from liquer.state_types import type_identifier_of, data_characteristics
    from liquer.store import MemoryStore, FileStore, set_store, get_store
    from liquer.parser import parse
    from liquer.constants import mimetype_from_extension

    FUNCS = {}

    def register():
        import importlib

        reset_command_registry()
        importlib.reload(liquer.ext.basic)  # re-register the basic commands (ns, ...)

        @first_command
        def hello():
            return "Hello"

        @command
        def greet(greeting, who="world"):
            return f"{greeting}, {who}!"

        @command
        def num(state, x: int = 1):
            return x

        @command
        def table(x):
            return dict(value=x)

        @command(ABC="def", xyz="local")
        def tagged(x):
            return f"tagged {x}"

        @command(ns="other", version="2.5")
        def shout(x):
            return str(x).upper()

        @command
        def failing(x):
            raise Exception("Deliberate failure")

        @command
        def sub(x, context=None):
            inner = context.evaluate("hello/greet-inner", description="inner one")
            return f"{x}+{inner.get()}"

        @command
        def join(x, y):
            return f"{x}|{y}"

        FUNCS.clear()
        for f in (hello, greet, num, table, tagged, shout, failing, sub, join):
            FUNCS[f.__name__] = f

    COMPARE_KEYS = [
        "query",
        "status",
        "is_error",
        "type_identifier",
        "data_characteristics",
        "commands",
        "extended_commands",
        "parent_query",
        "argument_queries",
        "direct_subqueries",
        "filename",
        "extension",
        "mimetype",
        "attributes",
        "dependencies",
    ]

    def has_error_message(md, text):
        for name in ("log", "child_log"):
            for entry in md.get(name, []) or []:
                if text in str(entry.get("message", "")):
                    return True
        return False

    def check_success(label, q, state, expected):
        md = state.metadata
        expect(md.get("query") == parse(q).encode(), f"{label}: query {md.get('query')!r}")
        expect(md.get("status") == "ready", f"{label}: status {md.get('status')!r}")
        expect(md.get("is_error") is False, f"{label}: is_error {md.get('is_error')!r}")
        expect(not state.is_error, f"{label}: state.is_error")
        try:
            value = state.get()
        except Exception as e:
            problem(f"{label}: value cannot be obtained: {e}")
            return
        expect(value == expected["value"], f"{label}: value {value!r}")
        expect(
            md.get("type_identifier") == type_identifier_of(value),
            f"{label}: type_identifier {md.get('type_identifier')!r}",
        )
        expect(
            md.get("data_characteristics") == data_characteristics(value),
            f"{label}: data_characteristics {md.get('data_characteristics')!r}",
        )
        last = expected["last"]
        expect(md.get("commands", [None])[-1] == last, f"{label}: commands {md.get('commands')!r}")
        ext = md.get("extended_commands", [{}])[-1]
        expect(ext.get("command_name") == last[0], f"{label}: ext command_name {ext!r}")
        expect(ext.get("ns") == expected["ns"], f"{label}: ext ns {ext.get('ns')!r}")
        expect(ext.get("qcommand") == last, f"{label}: ext qcommand {ext.get('qcommand')!r}")
        expect(
            ext.get("command_metadata", {}).get("name") == last[0],
            f"{label}: command_metadata name",
        )
        dep_key = f"ns-{expected['ns']}/{last[0]}"
        deps = md.get("dependencies", {}).get("commands", {})
        expect(dep_key in deps, f"{label}: dependency {dep_key} missing in {deps!r}")
        expect(
            deps.get(dep_key) == ext.get("command_metadata", {}).get("version"),
            f"{label}: dependency version {deps.get(dep_key)!r}",
        )
        func = FUNCS.get(last[0])
        if func is not None:
            expect(
                deps.get(dep_key) == callable_hash(func),
                f"{label}: version {deps.get(dep_key)!r} is not the version of the command",
            )
        expect(
            md.get("parent_query") == expected["parent"],
            f"{label}: parent_query {md.get('parent_query')!r}",
        )
        expect(
            [x.get("query") for x in md.get("direct_subqueries", [])] == expected.get("subqueries", []),
            f"{label}: direct_subqueries {md.get('direct_subqueries')!r}",
        )
        expect(
            [x.get("query") for x in md.get("argument_queries", [])] == expected.get("links", []),
            f"{label}: argument_queries {md.get('argument_queries')!r}",
        )
        expect(md.get("filename") == expected.get("filename"), f"{label}: filename {md.get('filename')!r}")
        expect(md.get("extension") == expected.get("extension"), f"{label}: extension {md.get('extension')!r}")
        expect(md.get("mimetype") == expected["mimetype"], f"{label}: mimetype {md.get('mimetype')!r}")
        attrs = dict(md.get("attributes", {}))
        for k, v in expected.get("attributes", {}).items():
            expect(attrs.get(k) == v, f"{label}: attribute {k}={attrs.get(k)!r}")
        for k in expected.get("no_attributes", []):
            expect(k not in attrs, f"{label}: attribute {k} should not be there")

    def check_agreement(label, returned, kept):
        if kept is None:
            problem(f"{label}: no kept metadata")
            return
        for k in COMPARE_KEYS:
            expect(
                returned.get(k) == kept.get(k),
                f"{label}: kept copy differs on {k}: {returned.get(k)!r} vs {kept.get(k)!r}",
            )

    def check_failure(label, state, kept, text):
        md = state.metadata
        expect(state.is_error, f"{label}: state.is_error false")
        expect(md.get("status") == "error", f"{label}: status {md.get('status')!r}")
        expect(md.get("is_error") is True, f"{label}: is_error {md.get('is_error')!r}")
        expect(has_error_message(md, text), f"{label}: error message missing in returned metadata")
        try:
            state.get()
            problem(f"{label}: get() did not raise")
        except Exception:
            pass
        if kept is None:
            problem(f"{label}: no kept metadata for failure")
            return
        expect(kept.get("status") == "error", f"{label}: kept status {kept.get('status')!r}")
        expect(kept.get("is_error") is True, f"{label}: kept is_error {kept.get('is_error')!r}")
        expect(has_error_message(kept, text), f"{label}: error message missing in kept metadata")

    octet = "application/octet-stream"
    SUCCESS = {
        "hello": dict(
            value="Hello", last=["hello"], commands=[["hello"]], ns="root", parent="", mimetype=octet
        ),
        "hello/greet-everybody": dict(
            value="Hello, everybody!",
            last=["greet", "everybody"],
            commands=[["hello"], ["greet", "everybody"]],
            ns="root",
            parent="hello",
            mimetype=octet,
        ),
        "hello/tagged/greet-x": dict(
            value="tagged Hello, x!",
            last=["greet", "x"],
            commands=[["hello"], ["tagged"], ["greet", "x"]],
            ns="root",
            parent="hello/tagged",
            mimetype=octet,
            attributes=dict(ABC="def"),
            no_attributes=["xyz"],
        ),
        "hello/tagged": dict(
            value="tagged Hello",
            last=["tagged"],
            commands=[["hello"], ["tagged"]],
            ns="root",
            parent="hello",
            mimetype=octet,
            attributes=dict(ABC="def", xyz="local"),
        ),
        "hello/ns-other/shout": dict(
            value="HELLO",
            last=["shout"],
            commands=[["hello"], ["shout"]],
            ns="other",
            parent="hello/ns-other",
            mimetype=octet,
        ),
        "hello/sub": dict(
            value="Hello+Hello, inner!",
            last=["sub"],
            commands=[["hello"], ["sub"]],
            ns="root",
            parent="hello",
            subqueries=["hello/greet-inner"],
            mimetype=octet,
        ),
        "hello/join-~X~/hello/greet-link~E": dict(
            value="Hello|Hello, link!",
            last=None,
            commands=None,
            ns="root",
            parent="hello",
            links=["/hello/greet-link"],
            subqueries=["/hello/greet-link"],
            mimetype=octet,
        ),
        "num-7/table/data.json": dict(
            value=dict(value=7),
            last=["table"],
            commands=[["num", "7"], ["table"]],
            ns="root",
            parent="num-7",
            filename="data.json",
            extension="json",
            mimetype="application/json",
        ),
        "hello/greet-t/out.txt": dict(
            value="Hello, t!",
            last=["greet", "t"],
            commands=[["hello"], ["greet", "t"]],
            ns="root",
            parent="hello",
            filename="out.txt",
            extension="txt",
            mimetype="text/plain",
        ),
    }
    FAILURES = {
        "hello/failing": "Deliberate failure",
        "hello/failing/greet-after": "Deliberate failure",
        "hello/nonexistent_command": "Unknown action",
    }

    tmp = tempfile.mkdtemp(prefix="c18check_")
    try:
        cache_makers = [
            ("nocache", lambda: NoCache()),
            ("memory", lambda: MemoryCache()),
            ("file", lambda: FileCache(os.path.join(tmp, "filecache"))),
            ("sql", lambda: SQLCache.from_sqlite(os.path.join(tmp, "cache.sqlite"))),
        ]
        for cache_name, maker in cache_makers:
            register()
            set_store(MemoryStore())
            cache = maker()
            set_cache(cache)
            for q, expected in SUCCESS.items():
                expected = dict(expected)
                for temperature in ("cold", "warm"):
                    label = f"[{cache_name}/{temperature}] {q}"
                    state = get_context().evaluate(q)
                    if expected["commands"] is None:
                        # link query: the last action carries the link as a parameter
                        md = state.metadata
                        expected["commands"] = md.get("commands")
                        expected["last"] = md.get("commands", [None])[-1]
                        expect(
                            isinstance(expected["last"], list) and expected["last"][0] == "join",
                            f"{label}: last command {expected['last']!r}",
                        )
                    if "filename" in expected:
                        # A trailing file name does not execute an action; the last
                        # executed action is the one of the predecessor.
                        md = state.metadata
                        expect(md.get("filename") == expected["filename"], f"{label}: filename")
                    check_success(label, q, state, expected)
                    if cache_name != "nocache":
                        kept = cache.get_metadata(parse(q).encode())
                        check_agreement(label, state.metadata, kept)
            for q, text in FAILURES.items():
                for temperature in ("cold", "warm"):
                    label = f"[{cache_name}/{temperature}] {q}"
                    state = get_context().evaluate(q)
                    if cache_name != "nocache":
                        kept = cache.get_metadata(parse(q).encode())
                    else:
                        kept = dict(state.metadata)
                    check_failure(label, state, kept, text)

        # Results saved to a store key
        for store_name, store_maker in [
            ("memorystore", lambda: MemoryStore()),
            ("filestore", lambda: FileStore(os.path.join(tmp, "filestore"))),
        ]:
            for cache_name, maker in [("nocache", lambda: NoCache()), ("memory", lambda: MemoryCache())]:
                register()
                store = store_maker()
                set_store(store)
                set_cache(maker())
                for i, (q, expected) in enumerate(SUCCESS.items()):
                    if expected["commands"] is None:
                        continue
                    ext = expected.get("extension", "txt" if isinstance(expected["value"], str) else "json")
                    key = f"results/{cache_name}/item{i}.{ext}"
                    for temperature in ("cold", "warm"):
                        label = f"[{store_name}/{cache_name}/{temperature}] {q} -> {key}"
                        state = get_context().evaluate(q, store_key=key)
                        check_success(label, q, state, expected)
                        expect(store.contains(key), f"{label}: key not in store")
                        kept = store.get_metadata(key)
                        check_agreement(label, state.metadata, kept)
                for i, (q, text) in enumerate(FAILURES.items()):
                    key = f"failures/{cache_name}/item{i}.txt"
                    label = f"[{store_name}/{cache_name}] {q} -> {key}"
                    state = get_context().evaluate(q, store_key=key)
                    kept = store.get_metadata(key)
                    check_failure(label, state, kept, text)
    finally:
        set_cache(NoCache())
        set_store(MemoryStore())
        shutil.rmtree(tmp, ignore_errors=True)


def main():
    out = io.StringIO()
    try:
        with contextlib.redirect_stdout(out), contextlib.redirect_stderr(out):
            run_all()
    except Exception:
        print("PROPERTY VIOLATED: unexpected exception\n" + traceback.format_exc())
        return 1
    if PROBLEMS:
        print("PROPERTY VIOLATED: " + "; ".join(PROBLEMS[:10] if "-v" not in sys.argv else PROBLEMS) + (f" (+{len(PROBLEMS) - 10} more)" if len(PROBLEMS) > 10 else ""))
        return 1
    print("PROPERTY HOLDS")
    return 0


if __name__ == "__main__":
    sys.exit(main())
