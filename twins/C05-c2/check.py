"""Standalone check of property C05 (cache admission).

Run as:  cd <repo root> && /venv/bin/python check.py

After every evaluation of a history of queries, for every cache kind, every key
the cache lists (plus the canonical and as-typed spelling of every (sub)query)
is inspected: data returned by the cache must equal the value of a fresh
evaluation, and failed / volatile / caching-disabled results (and everything
downstream of them) must never be retrievable as data.
"""
import os
import sys

sys.path.insert(0, os.getcwd())

import contextlib
import io
import logging
import shutil
import tempfile

logging.disable(logging.CRITICAL)

from liquer.cache import (
    FileCache,
    MemoryCache,
    NoCache,
    SQLCache,
    StoreCache,
    set_cache,
)
from liquer.commands import command, first_command, reset_command_registry
from liquer.context import get_context
from liquer.parser import parse
from liquer.store import MemoryStore

COUNTER = [0]


def register_commands():
    reset_command_registry()

    @first_command
    def one():
        return 1

    @command
    def add(x, y=1, z=0):
        return x + int(y) + int(z)

    @first_command(volatile=True)
    def vol():
        COUNTER[0] += 1
        return 1000 * COUNTER[0]

    @command
    def boom(x):
        raise Exception("boom")

    @command
    def nocache(x, context=None):
        context.disable_cache()
        return x + 100

    @command
    def cacheon(x, context=None):
        context.enable_cache()
        return x + 5


# (as-typed query, extra_parameters, input_value or None)
HISTORY = [
    ("one", None, None),
    ("one/add-2", None, None),
    ("one/add-2/add-3", None, None),
    ("one/add-%32", None, None),  # non-canonical spelling of one/add-2
    ("one/add-%34/add-1", None, None),  # canonical: one/add-4/add-1
    ("vol", None, None),
    ("vol/add-2", None, None),
    ("vol/add-2/add-3", None, None),
    ("one/boom", None, None),
    ("one/boom/add-2", None, None),
    ("one/nocache", None, None),
    ("one/nocache/add-2", None, None),
    ("one/nocache/cacheon", None, None),
    ("one/add-2", [10], None),  # extra parameters -> volatile
    ("one/add-2", None, None),
    ("one/add-7", {"z": 20}, None),  # extra parameters dictionary -> volatile
    ("add-3", None, 10),  # injected input value -> volatile, not cached
    ("one/add-2/add-3", None, None),  # cache hit expected
    ("vol/add-2", None, None),
    ("one/boom", None, None),
    ("one/add-7", None, None),
]

# Expected value of a fresh evaluation for keys that may be served as data
PURE = {
    "one": 1,
    "one/add-2": 3,
    "one/add-2/add-3": 6,
    "one/add-4": 5,
    "one/add-4/add-1": 6,
    "one/add-7": 8,
}

# Keys which must never be retrievable as data
FORBIDDEN = [
    "vol",
    "vol/add-2",
    "vol/add-2/add-3",
    "one/boom",
    "one/boom/add-2",
    "one/nocache",
    "one/nocache/add-2",
    "one/nocache/cacheon",
    "add-3",
    "one/add-%32",
    "one/add-%34",
    "one/add-%34/add-1",
]


class Violation(Exception):
    pass


def quiet(f, *arg, **kwarg):
    with contextlib.redirect_stdout(io.StringIO()), contextlib.redirect_stderr(
        io.StringIO()
    ):
        return f(*arg, **kwarg)


def subqueries(text):
    parts = text.split("/")
    return ["/".join(parts[: i + 1]) for i in range(len(parts))]


def fresh_value(cache, key):
    """Evaluate key from scratch without any cache; returns (is_error, value)"""
    set_cache(NoCache())
    try:
        state = quiet(get_context().evaluate, key)
        if state.is_error:
            return True, None
        return False, state.get()
    finally:
        set_cache(cache)


def inspect_cache(name, cache, step):
    keys = set(quiet(lambda: list(cache.keys())))
    for q, _, _ in HISTORY:
        for sub in subqueries(q):
            keys.add(sub)
            keys.add(parse(sub).encode())
    keys.update(FORBIDDEN)
    keys.update(PURE)
    for key in sorted(keys):
        state = quiet(cache.get, key)
        if state is None:
            continue
        where = f"[{name}, after step {step}] key {key!r}"
        if key in FORBIDDEN:
            raise Violation(f"{where} must not be served as data, got {state.data!r}")
        if state.is_error or state.metadata.get("status") != "ready":
            raise Violation(f"{where} served although not ready/successful")
        if state.is_volatile():
            raise Violation(f"{where} served although volatile")
        if key != parse(key).encode():
            raise Violation(f"{where} data filed under a non-canonical key")
        if key in PURE:
            if state.data != PURE[key]:
                raise Violation(
                    f"{where} cache returned {state.data!r}, expected {PURE[key]!r}"
                )
        else:
            is_error, value = fresh_value(cache, key)
            if is_error or value != state.data:
                raise Violation(
                    f"{where} cache returned {state.data!r}, fresh evaluation gives "
                    f"{'an error' if is_error else repr(value)}"
                )
        metadata = quiet(cache.get_metadata, key)
        if metadata is None or metadata.get("query") != key:
            raise Violation(f"{where} metadata missing or filed under another query")


def run_history(name, cache):
    register_commands()
    COUNTER[0] = 0
    set_cache(cache)
    try:
        for step, (q, extra, input_value) in enumerate(HISTORY):
            canonical = parse(q).encode()
            before = COUNTER[0]
            if input_value is None:
                state = quiet(get_context().evaluate, q, extra_parameters=extra)
            else:
                state = quiet(get_context().evaluate, q, input_value=input_value)
            where = f"[{name}, step {step}] {q!r}"
            # the evaluation result itself
            if "boom" in q:
                if not state.is_error:
                    raise Violation(f"{where} expected an error state")
            else:
                if state.is_error:
                    raise Violation(f"{where} unexpected error")
                if q.startswith("vol"):
                    if COUNTER[0] != before + 1:
                        raise Violation(f"{where} volatile command was not re-executed")
                    expected = 1000 * COUNTER[0] + {"vol": 0, "vol/add-2": 2}.get(q, 5)
                    if state.get() != expected or not state.is_volatile():
                        raise Violation(f"{where} wrong volatile result {state.get()!r}")
                elif extra is not None:
                    expected = PURE[canonical] + (10 if type(extra) is list else 20)
                    if state.get() != expected or not state.is_volatile():
                        raise Violation(f"{where} wrong extra-parameters result")
                elif input_value is not None:
                    if state.get() != input_value + 3:
                        raise Violation(f"{where} wrong input-value result")
                elif "nocache" in q:
                    expected = {
                        "one/nocache": 101,
                        "one/nocache/add-2": 103,
                        "one/nocache/cacheon": 106,
                    }[q]
                    if state.get() != expected:
                        raise Violation(f"{where} wrong result {state.get()!r}")
                    if state.metadata.get("caching", True):
                        raise Violation(f"{where} caching flag not switched off")
                else:
                    if state.get() != PURE[canonical]:
                        raise Violation(
                            f"{where} returned {state.get()!r}, expected {PURE[canonical]!r}"
                        )
                    if state.query != canonical:
                        raise Violation(f"{where} result not under the canonical query")
            inspect_cache(name, cache, step)
        # pure successful results are expected to be admitted (all cache kinds used here store ints)
        for key in ("one", "one/add-2/add-3", "one/add-4/add-1", "one/add-7"):
            state = quiet(cache.get, key)
            if state is None or state.data != PURE[key]:
                raise Violation(f"[{name}] finished result {key!r} is not served")
    finally:
        set_cache(None)
        reset_command_registry()


def main():
    tmp = tempfile.mkdtemp(prefix="c05check_")
    try:
        caches = [
            ("MemoryCache", lambda: MemoryCache()),
            ("FileCache", lambda: FileCache(os.path.join(tmp, "filecache"))),
            ("SQLCache", lambda: SQLCache.from_sqlite()),
            ("StoreCache", lambda: StoreCache(MemoryStore(), "cache")),
            ("StoreCache-flat", lambda: StoreCache(MemoryStore(), "cache", flat=True)),
        ]
        for name, factory in caches:
            cache = quiet(factory)
            run_history(name, cache)
    except Violation as v:
        print(f"PROPERTY VIOLATED: {v}")
        return 1
    finally:
        shutil.rmtree(tmp, ignore_errors=True)
    print("PROPERTY HOLDS")
    return 0


if __name__ == "__main__":
    sys.exit(main())
