"""Standalone check of property C01 (pipeline semantics = left-to-right composition).

Run as:  cd <repo root> && /venv/bin/python check.py
"""
import os
import sys
import io
import shutil
import tempfile
import contextlib

sys.path.insert(0, os.getcwd())


def main():
    from liquer.cache import MemoryCache, set_cache
    from liquer.commands import reset_command_registry, command, first_command
    from liquer.context import get_context
    from liquer.store import set_store, MemoryStore
    from liquer.state import State
    from liquer import evaluate

    problems = []
    calls = []

    reset_command_registry()
    set_cache(MemoryCache())
    set_store(MemoryStore())

    # ---- fixed command vocabulary ------------------------------------
    @first_command
    def value(x: int = 0):
        calls.append(("value", x))
        return x

    @first_command
    def text(s="dflt"):
        calls.append(("text", s))
        return s

    @command
    def add(x, y: int = 1):
        calls.append(("add", x, y))
        return x + y

    @command
    def mulf(x, y: float = 2.0):
        calls.append(("mulf", x, y))
        return x * y

    @command
    def neg_if(x, flag: bool = False):
        calls.append(("neg_if", x, flag))
        return -x if flag else x

    @command
    def cat(x, *parts):
        calls.append(("cat", x) + tuple(parts))
        return str(x) + "".join(str(p) for p in parts)

    @command
    def pair(x, a, b="B", context=None):
        calls.append(("pair", x, a, b, context is not None))
        return [x, a, b]

    @command
    def setvar(state, name, val):
        calls.append(("setvar", name, val))
        state.vars[name] = val
        return state

    @command
    def getvar(state, name):
        calls.append(("getvar", name))
        return state.with_data(state.vars.get(name))

    @command
    def use_ns(state, *namespaces):
        namespaces = list(namespaces)
        if "root" not in namespaces:
            namespaces.append("root")
        state.vars["active_namespaces"] = namespaces
        return state

    @command(ns="other")
    def add(x, y: int = 1):  # noqa: F811  (same name, other namespace)
        calls.append(("other.add", x, y))
        return x + 100 * y

    @command(ns="other")
    def only_other(x):
        calls.append(("only_other", x))
        return ("other", x)

    def run(query, expected_value, expected_last_command, expected_vars=None,
            expected_calls=None, **kw):
        del calls[:]
        sink = io.StringIO()
        try:
            with contextlib.redirect_stdout(sink), contextlib.redirect_stderr(sink):
                if kw:
                    state = get_context().evaluate(query, **kw)
                else:
                    state = evaluate(query)
        except Exception as e:  # the property scenarios below never raise
            problems.append(f"{query!r} {kw!r}: raised {type(e).__name__}: {e}")
            return None
        if state.is_error:
            problems.append(f"{query!r} {kw!r}: unexpected error state")
            return state
        got = state.get()
        if got != expected_value or type(got) is not type(expected_value):
            problems.append(
                f"{query!r} {kw!r}: value {got!r} != expected {expected_value!r}"
            )
        cmds = state.metadata.get("commands", [])
        last = cmds[-1] if len(cmds) else None
        if last != expected_last_command:
            problems.append(
                f"{query!r} {kw!r}: last command {last!r} != expected {expected_last_command!r}"
            )
        if expected_vars is not None:
            for k, v in expected_vars.items():
                if state.vars.get(k) != v:
                    problems.append(
                        f"{query!r} {kw!r}: var {k}={state.vars.get(k)!r} != expected {v!r}"
                    )
        if expected_calls is not None and list(calls) != list(expected_calls):
            problems.append(
                f"{query!r} {kw!r}: call log {calls!r} != expected {expected_calls!r}"
            )
        return state

    # ---- plain composition, typed args, defaults ----------------------
    run("value-3/add-4/mulf-1.5", 10.5, ["mulf", "1.5"],
        expected_calls=[("value", 3), ("add", 3, 4), ("mulf", 7, 1.5)])
    set_cache(MemoryCache())
    run("value/add/mulf", 2.0, ["mulf"],
        expected_calls=[("value", 0), ("add", 0, 1), ("mulf", 1, 2.0)])
    run("value-5/neg_if-t", -5, ["neg_if", "t"])
    run("value-5/neg_if-f", 5, ["neg_if", "f"])
    run("value-5/neg_if", 5, ["neg_if"])
    # variadic tail, escaped tokens, empty argument
    run("text-a~_b/cat-x-y~.z-w", "a-bxy zw", ["cat", "x", "y z", "w"])
    run("text-a/cat", "a", ["cat"])
    run("text-a/cat--q", "aq", ["cat", "", "q"])
    run("text/cat-1", "dflt1", ["cat", "1"])
    # context parameter and default after a plain argument
    run("value-1/pair-u", [1, "u", "B"], ["pair", "u"])
    run("value-1/pair-u-v", [1, "u", "v"], ["pair", "u", "v"])

    # ---- links: absolute and relative, nested ---------------------------
    set_cache(MemoryCache())
    run("value-1/add-~X~/value-2~E", 3, ["add", "~X~/value-2~E"])
    run("value-1/add-~X~add-2~E", 4, ["add", "~X~add-2~E"])
    # relative link in the third action: applies to everything left of it
    run("value-1/add-2/add-~X~add-10~E", 16, ["add", "~X~add-10~E"])
    # nested: absolute link whose query itself has a relative link
    run("value-1/add-~X~/value-2/add-~X~add-5~E~E", 10,
        ["add", "~X~/value-2/add-~X~add-5~E~E"])
    # link into a variadic tail after an escaped token
    run("text-p/cat-a~_b-~X~/value-7~E", "pa-b7", ["cat", "a-b", "~X~/value-7~E"])

    # ---- state variables ----------------------------------------------
    set_cache(MemoryCache())
    run("setvar-k-v1/value-2/add-3", 5, ["add", "3"], expected_vars={"k": "v1"})
    run("setvar-k-v1/setvar-k-v2/getvar-k", "v2", ["getvar", "k"],
        expected_vars={"k": "v2"})
    run("value-1/setvar-a-b/getvar-a", "b", ["getvar", "a"], expected_vars={"a": "b"})

    # ---- namespaces -----------------------------------------------------
    set_cache(MemoryCache())
    run("value-1/add-2", 3, ["add", "2"])
    run("use_ns-other/value-1/add-2", 201, ["add", "2"],
        expected_vars={"active_namespaces": ["other", "root"]})
    run("use_ns-other/value-1/only_other", ("other", 1), ["only_other"])

    # ---- injected input value and extra parameters --------------------
    run("add-2", 12, ["add", "2"], input_value=10,
        expected_calls=[("add", 10, 2)])
    run("add-2/mulf-3", 36.0, ["mulf", "3"], input_value=10)
    run("value-1/add", 235, ["add"], extra_parameters=[234])
    run("value-1/add", 235, ["add"], extra_parameters={"y": 234})
    run("value-1/pair-u", [1, "u", "w"], ["pair", "u"], extra_parameters={"b": "w"})
    s = run("value-1/add", 2, ["add"])
    if s is not None and s.is_volatile():
        problems.append("plain query result must not be volatile")

    # ---- trailing file name only labels the result ----------------------
    set_cache(MemoryCache())
    s = run("value-3/add-4/result.json", 7, ["add", "4"])
    if s is not None:
        if s.metadata.get("filename") != "result.json":
            problems.append(f"filename {s.metadata.get('filename')!r} != 'result.json'")
        if s.metadata.get("extension") != "json":
            problems.append(f"extension {s.metadata.get('extension')!r} != 'json'")
    s = run("value-3/add-4/result.tar.gz", 7, ["add", "4"])
    if s is not None and s.metadata.get("filename") != "result.tar.gz":
        problems.append(f"filename {s.metadata.get('filename')!r} != 'result.tar.gz'")

    # ---- failures: missing mandatory argument, too many, unknown, bad link
    def run_error(query, **kw):
        sink = io.StringIO()
        try:
            with contextlib.redirect_stdout(sink), contextlib.redirect_stderr(sink):
                state = get_context().evaluate(query, **kw)
        except Exception as e:
            return ("raised", type(e).__name__)
        if not state.is_error:
            problems.append(f"{query!r}: expected an error state, got {state.get()!r}")
        return ("error-state", None)

    set_cache(MemoryCache())
    r1 = run_error("value-1/pair")  # 'a' has no default
    r2 = run_error("value-1/add-1-2")  # too many arguments
    r3 = run_error("value-1/nonexistent_command")
    r4 = run_error("value-1/add-~X~/nonexistent_command~E")
    expected_errs = [("error-state", None)] * 3 + [("raised", "EvaluationException")]
    if [r1, r2, r3, r4] != expected_errs:
        problems.append(f"error behaviour {[r1, r2, r3, r4]!r} != {expected_errs!r}")

    # cached re-evaluation gives the same value without re-running commands
    set_cache(MemoryCache())
    run("value-3/add-4", 7, ["add", "4"])
    run("value-3/add-4", 7, ["add", "4"], expected_calls=[])

    return problems


if __name__ == "__main__":
    cwd = os.getcwd()
    tmp = tempfile.mkdtemp(prefix="c01check_")
    try:
        os.chdir(tmp)
        try:
            problems = main()
        except Exception as e:
            import traceback

            traceback.print_exc()
            problems = [f"check crashed: {type(e).__name__}: {e}"]
    finally:
        os.chdir(cwd)
        shutil.rmtree(tmp, ignore_errors=True)
    if problems:
        print("PROPERTY VIOLATED: " + "; ".join(problems))
        sys.exit(1)
    print("PROPERTY HOLDS")
    sys.exit(0)
