"""Standalone check of property C10 (evaluation isolation).

Run as:  cd <repo root> && /venv/bin/python check.py
"""
import os
import sys

sys.path.insert(0, os.getcwd())

import contextlib
import io
import shutil
import tempfile
import traceback


class Violation(Exception):
    pass


def expect(cond, message):
    if not cond:
        raise Violation(message)


def setup_commands():
    from liquer.commands import command, first_command
    import liquer.ext.basic  # noqa: F401  (let, state_variable)

    @first_command
    def make_list():
        return [1, 2, 3]

    @first_command
    def make_dict():
        return dict(a=[1], b=dict(c=2))

    @command
    def append_inplace(x, value=99):
        x.append(int(value))
        return x

    @command
    def setkey_inplace(x, key="z"):
        x[key] = "mutated"
        x["a"].append(7)
        return x

    @command
    def poke_input_only(x):
        """Mutates the input in place but returns an unrelated value"""
        if isinstance(x, list):
            x.append("poked")
        elif isinstance(x, dict):
            x["poked"] = True
        return "done"

    @command
    def mutate_var(x, name="mlist", context=None):
        """Mutates a mutable state variable value in place"""
        context.vars[name].append("leak")
        return list(context.vars[name])

    @command
    def read_var(x, name="mlist", context=None):
        v = context.vars.get(name)
        return list(v) if isinstance(v, list) else v

    @first_command
    def mutate_var0(name="mlist", context=None):
        """Mutates a mutable state variable value in place (first command)"""
        context.vars[name].append("leak0")
        return list(context.vars[name])

    @first_command
    def read_var0(name="mlist", context=None):
        v = context.vars.get(name)
        return list(v) if isinstance(v, list) else v

    try:
        import pandas as pd
        import liquer.ext.lq_pandas  # noqa: F401

        @first_command
        def make_df():
            return pd.DataFrame(dict(a=[1, 2, 3], b=[4, 5, 6]))

        @command
        def df_inplace(df):
            df["a"] = 0
            df.loc[0, "b"] = -1
            return df

        return True
    except ImportError:
        return False


def scenario(cache_factory, cache_name, has_pandas):
    import liquer.state as st
    from liquer.state import set_var, get_vars
    from liquer.cache import set_cache
    from liquer.query import evaluate

    cache = cache_factory()
    set_cache(cache)
    st._vars = None
    set_var("mlist", ["default"])
    set_var("plain", "p0")
    defaults_snapshot = {"mlist": ["default"], "plain": "p0"}

    def defaults_ok(where):
        expect(
            get_vars() == defaults_snapshot,
            f"[{cache_name}] configured defaults changed {where}: {get_vars()!r}",
        )

    # --- variables do not leak between evaluations -------------------------
    expect(
        evaluate("state_variable-abc").get() is None,
        f"[{cache_name}] variable abc visible before being set",
    )
    s = evaluate("let-abc-1/state_variable-abc")
    expect(s.get() == "1", f"[{cache_name}] let not visible to the right: {s.get()!r}")
    expect(s.vars.get("abc") == "1", f"[{cache_name}] let missing in state vars")
    s = evaluate("state_variable-abc")
    expect(s.get() is None, f"[{cache_name}] let leaked into later query: {s.get()!r}")
    expect("abc" not in s.vars, f"[{cache_name}] let leaked into later state vars")
    s = evaluate("let-plain-p1/state_variable-plain")
    expect(s.get() == "p1", f"[{cache_name}] let did not override default")
    expect(
        evaluate("state_variable-plain").get() == "p0",
        f"[{cache_name}] default not restored in next evaluation",
    )
    # variable set to the right is not visible to the left
    s = evaluate("state_variable-later/let-later-1")
    expect("later" in s.vars, f"[{cache_name}] let missing at the end")
    expect(
        evaluate("state_variable-later").get() is None,
        f"[{cache_name}] variable visible to the left / in next evaluation",
    )
    defaults_ok("after let")

    # --- in-place mutation of a mutable variable value -----------------------
    r = evaluate("make_list/mutate_var").get()
    expect(r == ["default", "leak"], f"[{cache_name}] mutate_var result {r!r}")
    defaults_ok("after in-place mutation of variable value")
    r = evaluate("make_list/read_var").get()
    expect(r == ["default"], f"[{cache_name}] mutated variable leaked: {r!r}")
    r = evaluate("read_var0").get()
    expect(r == ["default"], f"[{cache_name}] mutated variable leaked (first): {r!r}")
    r = evaluate("mutate_var0").get()
    expect(r == ["default", "leak0"], f"[{cache_name}] mutate_var0 result {r!r}")
    defaults_ok("after in-place mutation of variable value in a first command")
    r = evaluate("read_var0").get()
    expect(r == ["default"], f"[{cache_name}] mutated variable leaked (first/2): {r!r}")
    r = evaluate("make_list/read_var").get()
    expect(r == ["default"], f"[{cache_name}] mutated variable leaked (2): {r!r}")
    # mutate vars on a returned state
    s = evaluate("read_var0")
    s.vars["mlist"].append("caller")
    s.vars["injected"] = 1
    s.metadata["vars"]["plain"] = "hacked"
    defaults_ok("after mutation of returned state vars")
    s2 = evaluate("read_var0")
    expect(s2.get() == ["default"], f"[{cache_name}] caller var mutation leaked")
    expect("injected" not in s2.vars, f"[{cache_name}] injected var served later")
    expect(s2.vars.get("plain") == "p0", f"[{cache_name}] hacked var served later")
    expect(
        evaluate("state_variable-plain").get() == "p0",
        f"[{cache_name}] hacked var visible in another evaluation",
    )

    # --- in-place mutation of list data -----------------------------------
    first = evaluate("make_list")
    expect(first.get() == [1, 2, 3], f"[{cache_name}] make_list {first.get()!r}")
    r = evaluate("make_list/append_inplace").get()
    expect(r == [1, 2, 3, 99], f"[{cache_name}] append_inplace {r!r}")
    expect(
        first.data == [1, 2, 3],
        f"[{cache_name}] previously returned state changed: {first.data!r}",
    )
    r = evaluate("make_list").get()
    expect(r == [1, 2, 3], f"[{cache_name}] cache serves mutated list {r!r}")
    c = cache.get("make_list")
    if c is not None:
        expect(c.data == [1, 2, 3], f"[{cache_name}] cache.get mutated {c.data!r}")
    r = evaluate("make_list/append_inplace-5/append_inplace-6").get()
    expect(r == [1, 2, 3, 5, 6], f"[{cache_name}] chained append {r!r}")
    r = evaluate("make_list/append_inplace-5").get()
    expect(r == [1, 2, 3, 5], f"[{cache_name}] intermediate mutated {r!r}")
    r = evaluate("make_list/poke_input_only").get()
    expect(r == "done", f"[{cache_name}] poke result {r!r}")
    r = evaluate("make_list").get()
    expect(r == [1, 2, 3], f"[{cache_name}] input poked in cache {r!r}")
    r = evaluate("make_list/append_inplace").get()
    expect(r == [1, 2, 3, 99], f"[{cache_name}] re-read append_inplace {r!r}")

    # --- caller mutates returned value and metadata -------------------------
    s = evaluate("make_list/append_inplace")
    s.data.append("caller")
    s.metadata["attributes"]["Hacked"] = True
    s.metadata["filename"] = "hacked.txt"
    s.metadata["query"] = "something/else"
    s2 = evaluate("make_list/append_inplace")
    expect(s2.data == [1, 2, 3, 99], f"[{cache_name}] caller mutation served {s2.data!r}")
    expect(
        "Hacked" not in s2.metadata.get("attributes", {}),
        f"[{cache_name}] caller metadata mutation served",
    )
    expect(s2.metadata.get("filename") != "hacked.txt", f"[{cache_name}] filename hacked")
    expect(s2.query == "make_list/append_inplace", f"[{cache_name}] query hacked {s2.query}")
    c = cache.get("make_list/append_inplace")
    if c is not None:
        c.data.append("x")
        c.metadata["attributes"]["Hacked"] = True
        c2 = cache.get("make_list/append_inplace")
        expect(c2.data == [1, 2, 3, 99], f"[{cache_name}] cache.get aliasing {c2.data!r}")
        expect("Hacked" not in c2.metadata["attributes"], f"[{cache_name}] cache metadata aliasing")
    m = cache.get_metadata("make_list/append_inplace")
    if m is not None:
        m["attributes"]["Hacked2"] = True
        m2 = cache.get_metadata("make_list/append_inplace")
        expect("Hacked2" not in m2.get("attributes", {}), f"[{cache_name}] get_metadata aliasing")

    # --- dictionaries -------------------------------------------------------
    d0 = evaluate("make_dict")
    r = evaluate("make_dict/setkey_inplace").get()
    expect(r == dict(a=[1, 7], b=dict(c=2), z="mutated"), f"[{cache_name}] setkey {r!r}")
    expect(d0.data == dict(a=[1], b=dict(c=2)), f"[{cache_name}] returned dict changed")
    r = evaluate("make_dict").get()
    expect(r == dict(a=[1], b=dict(c=2)), f"[{cache_name}] cached dict mutated {r!r}")
    r["b"]["c"] = 3
    r = evaluate("make_dict").get()
    expect(r == dict(a=[1], b=dict(c=2)), f"[{cache_name}] caller dict mutation served")
    evaluate("make_dict/poke_input_only")
    r = evaluate("make_dict").get()
    expect(r == dict(a=[1], b=dict(c=2)), f"[{cache_name}] dict poked in cache {r!r}")

    # --- data frames ---------------------------------------------------------
    if has_pandas:
        df0 = evaluate("make_df")
        r = evaluate("make_df/df_inplace").get()
        expect(list(r.a) == [0, 0, 0] and list(r.b) == [-1, 5, 6], f"[{cache_name}] df_inplace")
        expect(list(df0.data.a) == [1, 2, 3], f"[{cache_name}] returned df changed")
        r = evaluate("make_df").get()
        expect(
            list(r.a) == [1, 2, 3] and list(r.b) == [4, 5, 6],
            f"[{cache_name}] cached df mutated",
        )
        r["a"] = 5
        r = evaluate("make_df").get()
        expect(list(r.a) == [1, 2, 3], f"[{cache_name}] caller df mutation served")
        r = evaluate("make_df/df_inplace").get()
        expect(list(r.a) == [0, 0, 0] and list(r.b) == [-1, 5, 6], f"[{cache_name}] df re-read")

    # --- let combined with mutation and cache -------------------------------
    s = evaluate("let-abc-2/make_list/append_inplace")
    expect(s.get() == [1, 2, 3, 99] and s.vars.get("abc") == "2", f"[{cache_name}] let+mutate")
    s = evaluate("make_list/append_inplace")
    expect("abc" not in s.vars, f"[{cache_name}] let leaked through cache")
    defaults_ok("at the end")


def main():
    from liquer.cache import MemoryCache, NoCache, FileCache, CacheCombine, set_cache
    import liquer.state as st

    tmp = tempfile.mkdtemp(prefix="c10check_")
    old_vars = st._vars
    try:
        factories = [
            ("NoCache", NoCache),
            ("MemoryCache", MemoryCache),
            ("FileCache", lambda: FileCache(os.path.join(tmp, "fc"))),
            (
                "Memory+File",
                lambda: MemoryCache() + FileCache(os.path.join(tmp, "fc2")),
            ),
        ]
        has_pandas = setup_commands()
        for name, factory in factories:
            sink = io.StringIO()
            with contextlib.redirect_stdout(sink), contextlib.redirect_stderr(sink):
                scenario(factory, name, has_pandas)
        print("PROPERTY HOLDS")
        return 0
    except Violation as v:
        print(f"PROPERTY VIOLATED: {v}")
        return 1
    except Exception as e:
        traceback.print_exc()
        print(f"PROPERTY VIOLATED: unexpected exception {type(e).__name__}: {e}")
        return 1
    finally:
        st._vars = old_vars
        set_cache(None)
        shutil.rmtree(tmp, ignore_errors=True)


if __name__ == "__main__":
    sys.exit(main())
