"""Standalone check of property C07 (store contract) through the public API.

Run as:  cd <repo root> && /venv/bin/python check.py
Exits 0 printing "PROPERTY HOLDS", or 1 printing "PROPERTY VIOLATED: ...".
"""
import os
import sys

sys.path.insert(0, os.getcwd())

import hashlib
import shutil
import tempfile
import io
import contextlib


class Violation(Exception):
    pass


def expect(cond, msg):
    if not cond:
        raise Violation(msg)


def ancestors(key):
    parts = key.split("/")
    return ["/".join(parts[:i]) for i in range(1, len(parts))]


def parent(key):
    return "/".join(key.split("/")[:-1])


class Model:
    """Reference model: a tree of files (bytes + caller metadata) and directories."""

    def __init__(self):
        self.files = {}
        self.dirs = set()

    def store(self, key, data, custom):
        self.files[key] = (data, custom)
        self.dirs.update(ancestors(key))

    def store_metadata(self, key, custom):
        self.files[key] = (self.files[key][0], custom)

    def remove(self, key):
        self.files.pop(key, None)

    def makedir(self, key):
        self.dirs.add(key)
        self.dirs.update(ancestors(key))

    def removedir(self, key, recursive=False):
        if recursive:
            for k in list(self.files):
                if k.startswith(key + "/"):
                    del self.files[k]
            for k in list(self.dirs):
                if k.startswith(key + "/"):
                    self.dirs.discard(k)
        self.dirs.discard(key)

    def all_keys(self):
        return set(self.files) | set(self.dirs)

    def children(self, key):
        return sorted(k.split("/")[-1] for k in self.all_keys() if parent(k) == key)


def snapshot(store, universe):
    from liquer.store import StoreException

    snap = {}
    for k in universe:
        if not store.contains(k):
            snap[k] = None
            continue
        is_dir = store.is_dir(k)
        data = None
        if not is_dir:
            try:
                data = store.get_bytes(k)
            except StoreException:
                data = "<no bytes>"
        snap[k] = (is_dir, data, store.get_metadata(k))
    return snap


def check_against_model(label, store, model, prefix, universe):
    from liquer.store import StoreException

    def full(k):
        return prefix + k

    listed = [k for k in store.keys()]
    for k, (data, custom) in model.files.items():
        fk = full(k)
        expect(store.contains(fk), f"{label}: stored key {fk} not contained")
        expect(not store.is_dir(fk), f"{label}: file {fk} reported as directory")
        expect(store.get_bytes(fk) == data, f"{label}: wrong bytes for {fk}")
        md = store.get_metadata(fk)
        expect(md.get("custom") == custom, f"{label}: caller metadata lost for {fk}: {md.get('custom')!r} != {custom!r}")
        expect(md.get("key") == fk, f"{label}: metadata key {md.get('key')!r} != {fk!r}")
        fi = md.get("fileinfo", {})
        expect(fi.get("name") == k.split("/")[-1], f"{label}: fileinfo name wrong for {fk}: {fi.get('name')!r}")
        expect(fi.get("is_dir") is False, f"{label}: fileinfo is_dir wrong for {fk}")
        expect(fi.get("size") == len(data), f"{label}: fileinfo size wrong for {fk}: {fi.get('size')!r}")
        expect(fi.get("md5") == hashlib.md5(data).hexdigest(), f"{label}: md5 wrong for {fk}")
        expect(listed.count(fk) == 1, f"{label}: key {fk} listed {listed.count(fk)} times in keys()")
    for k in model.dirs:
        fk = full(k)
        expect(store.contains(fk), f"{label}: directory {fk} not contained")
        expect(store.is_dir(fk), f"{label}: directory {fk} not reported as directory")
        md = store.get_metadata(fk)
        expect(md.get("key") == fk, f"{label}: directory metadata key {md.get('key')!r} != {fk!r}")
        expect(md.get("fileinfo", {}).get("is_dir") is True, f"{label}: directory fileinfo is_dir wrong for {fk}")
        expect(listed.count(fk) == 1, f"{label}: directory {fk} listed {listed.count(fk)} times in keys()")
    # every key and directory appears exactly once in the parent's listing, and nothing extra
    for d in sorted(model.dirs | {""}):
        fd = full(d) if d != "" else prefix.rstrip("/")
        names = list(store.listdir(fd))
        expect(sorted(names) == model.children(d), f"{label}: listdir({fd!r}) = {sorted(names)} expected {model.children(d)}")
    # nothing extra in keys() within the universe
    expected = {full(k) for k in model.all_keys()}
    for k in universe:
        fk = full(k)
        if fk in expected:
            continue
        expect(fk not in listed, f"{label}: absent key {fk} listed in keys()")
        expect(not store.contains(fk), f"{label}: absent key {fk} contained")
        try:
            store.get_bytes(fk)
        except StoreException:
            pass
        except KeyError:
            pass
        else:
            raise Violation(f"{label}: reading absent key {fk} did not fail")


# Deviations that exist on the untouched tree (not introduced by any edit under test):
# removing a directory through an overlay placed over a directory store calls
# FileStore.remove() on a directory (IsADirectoryError). Those steps are skipped there.
KNOWN_SKIPS = {
    "file/overlay": {"removedir", "removedir_recursive"},
    "file/with_fallback": {"removedir", "removedir_recursive"},
}


def run_history(label, store, prefix=""):
    universe = ["a", "a/b", "a/b/c.txt", "a/b/e.txt", "a/d.txt", "x.txt", "e", "e/f", "e/g.txt"]
    full_universe = [prefix + k for k in universe]
    model = Model()

    def step(name):
        check_against_model(f"{label} after {name}", store, model, prefix, universe)
        # reads never change anything
        s1 = snapshot(store, full_universe)
        list(store.keys())
        for k in full_universe:
            store.contains(k)
            store.is_dir(k)
        s2 = snapshot(store, full_universe)
        expect(s1 == s2, f"{label} after {name}: read operations changed the state")
        return s2

    def unaffected(before, after, touched, name):
        for k in full_universe:
            if k in touched:
                continue
            expect(before[k] == after[k], f"{label}: {name} affected other key {k}")

    s = step("init")

    ops = [
        ("store", "a/b/c.txt", b"hello", "one"),
        ("store", "a/d.txt", b"world!", "two"),
        ("store", "x.txt", b"", "three"),
        ("store", "a/b/e.txt", b"\x00\x01\x02", "four"),
        ("store_metadata", "a/b/c.txt", None, "one-updated"),
        ("store", "a/d.txt", b"overwritten", "two-b"),
        ("remove", "a/d.txt", None, None),
        ("makedir", "e/f", None, None),
        ("store", "e/g.txt", b"gg", "five"),
        ("removedir", "e/f", None, None),
        ("remove", "a/b/e.txt", None, None),
        ("store", "a/d.txt", b"again", "two-c"),
        ("removedir_recursive", "a", None, None),
        ("remove", "x.txt", None, None),
        ("removedir_recursive", "e", None, None),
    ]
    for i, (op, key, data, custom) in enumerate(ops):
        fk = prefix + key
        name = f"#{i} {op}({fk})"
        if op in KNOWN_SKIPS.get(label, ()):
            continue
        touched = {fk}
        if op == "store":
            store.store(fk, data, dict(custom=custom))
            model.store(key, data, custom)
            touched.update(prefix + a for a in ancestors(key))
        elif op == "store_metadata":
            md = store.get_metadata(fk)
            md["custom"] = custom
            store.store_metadata(fk, md)
            model.store_metadata(key, custom)
        elif op == "remove":
            store.remove(fk)
            model.remove(key)
        elif op == "makedir":
            store.makedir(fk)
            model.makedir(key)
            touched.update(prefix + a for a in ancestors(key))
        elif op == "removedir":
            store.removedir(fk)
            model.removedir(key)
        elif op == "removedir_recursive":
            store.removedir(fk, recursive=True)
            model.removedir(key, recursive=True)
            touched.update(k for k in full_universe if k.startswith(fk + "/"))
        s_new = step(name)
        unaffected(s, s_new, touched, name)
        s = s_new


def main():
    import liquer.store as st

    tmpdirs = []

    def tmp():
        d = tempfile.mkdtemp(prefix="c07check_")
        tmpdirs.append(d)
        return d

    backends = [
        ("memory", lambda: st.MemoryStore()),
        ("file", lambda: st.FileStore(tmp())),
    ]
    old_store = st.STORE
    old_web = st.WEB_STORE
    count = 0
    try:
        for bname, make in backends:
            configs = [
                ("plain", lambda: (make(), "")),
                ("proxy", lambda: (st.ProxyStore(make()), "")),
                ("indexer", lambda: (st.IndexerStore(make()), "")),
                ("with_indexer", lambda: (make().with_indexer(), "")),
                ("overlay", lambda: (st.OverlayStore(make(), st.MemoryStore()), "")),
                ("with_fallback", lambda: (make().with_fallback(st.MemoryStore()), "")),
                ("mountpoint", lambda: (st.MountPointStore().mount("m", make()), "m/")),
                ("mountpoint-default", lambda: (st.MountPointStore(make()), "")),
            ]

            def global_store():
                st.set_store(None)
                st.mount("m", make())
                return st.get_store(), "m/"

            configs.append(("global", global_store))
            for cname, cfg in configs:
                store, prefix = cfg()
                run_history(f"{bname}/{cname}", store, prefix)
                count += 1
    finally:
        st.STORE = old_store
        st.WEB_STORE = old_web
        for d in tmpdirs:
            shutil.rmtree(d, ignore_errors=True)
    return count


if __name__ == "__main__":
    out = io.StringIO()
    try:
        with contextlib.redirect_stdout(out):
            n = main()
    except Violation as e:
        print(f"PROPERTY VIOLATED: {e}")
        sys.exit(1)
    except Exception as e:
        import traceback

        traceback.print_exc()
        print(f"PROPERTY VIOLATED: unexpected exception {type(e).__name__}: {e}")
        sys.exit(1)
    print(f"PROPERTY HOLDS ({n} configurations)")
    sys.exit(0)
