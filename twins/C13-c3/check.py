"""Standalone check of property C13: every cache back-end is a faithful key-value map of states.

Run as:  cd <repo root> && /venv/bin/python check.py
"""
import os
import sys

sys.path.insert(0, os.getcwd())

import contextlib
import io
import shutil
import tempfile

KEYS = [
    "abc",
    "abc/def",
    "abc-def",
    "abc/def-1-2",
    "ns-x/abc",
    "a~.b~_c/d",
    "-R/data/x.txt/-/abc",
    "abcd",
]

SECRET_TEXT = "PLAINTEXT-MARKER-0123456789-PLAINTEXT-MARKER"


class Violation(Exception):
    pass


def expect(cond, message):
    if not cond:
        raise Violation(message)


def make_state(key, value, attributes=None):
    from liquer.state import State

    state = State().with_data(value)
    state.query = key
    if attributes:
        state.metadata["attributes"] = dict(attributes)
    return state


def values_for(i):
    values = [
        123,
        "text " + SECRET_TEXT,
        {"a": 1, "b": [1, 2, 3], "c": SECRET_TEXT},
        b"\x00\x01bytes" + SECRET_TEXT.encode("ascii"),
        [1, 2, "x"],
        3.5,
        True,
        "other",
    ]
    return values[i % len(values)]


def check_present(name, cache, key, value):
    expect(cache.contains(key), f"{name}: {key!r} not reported present after store")
    expect(key in list(cache.keys()), f"{name}: {key!r} not listed among keys")
    state = cache.get(key)
    expect(state is not None, f"{name}: get({key!r}) returned nothing after store")
    expect(state.get() == value, f"{name}: get({key!r}) returned {state.get()!r} instead of {value!r}")
    expect(state.metadata.get("status") == "ready", f"{name}: state metadata of {key!r} not ready")
    expect(state.metadata.get("query") == key, f"{name}: state metadata of {key!r} has wrong query")
    metadata = cache.get_metadata(key)
    expect(metadata is not None, f"{name}: get_metadata({key!r}) returned nothing after store")
    expect(metadata.get("status") == "ready", f"{name}: metadata of {key!r} not ready")
    expect(metadata.get("query") == key, f"{name}: metadata of {key!r} carries query {metadata.get('query')!r}")


def check_absent(name, cache, key, why):
    expect(cache.get(key) is None, f"{name}: get({key!r}) returns a value {why}")
    expect(not cache.contains(key), f"{name}: {key!r} reported present {why}")
    expect(key not in list(cache.keys()), f"{name}: {key!r} listed among keys {why}")


def scenario(name, cache, keys=KEYS, metadata_only=True):
    cache.clean()
    expect(list(cache.keys()) == [], f"{name}: keys not empty after clean")
    for key in keys:
        check_absent(name, cache, key, "in an empty cache")
        cache.remove(key)  # removing a missing key must be harmless
        check_absent(name, cache, key, "after removing a missing key")

    # store all keys, each with a different value
    expected = {}
    for i, key in enumerate(keys):
        value = values_for(i)
        expect(cache.store(make_state(key, value)), f"{name}: store({key!r}) not successful")
        expected[key] = value
        for k, v in expected.items():
            check_present(name, cache, k, v)
    expect(sorted(cache.keys()) == sorted(keys), f"{name}: keys() is {sorted(cache.keys())!r}")

    # overwrite one key
    key = keys[1]
    expected[key] = "overwritten"
    expect(cache.store(make_state(key, "overwritten")), f"{name}: overwrite of {key!r} not successful")
    for k, v in expected.items():
        check_present(name, cache, k, v)
    expect(sorted(cache.keys()) == sorted(keys), f"{name}: keys() after overwrite is {sorted(cache.keys())!r}")

    # remove keys one by one, others stay
    for key in [keys[0], keys[2]]:
        cache.remove(key)
        del expected[key]
        check_absent(name, cache, key, "after remove")
        for k, v in expected.items():
            check_present(name, cache, k, v)

    # metadata-only writes never make data retrievable
    if metadata_only:
        key = keys[0]
        stored = cache.store_metadata(dict(query=key, status="evaluation", mymetafield="Hello"))
        expect(cache.get(key) is None, f"{name}: data retrievable after metadata-only write")
        if stored:
            metadata = cache.get_metadata(key)
            expect(metadata is not None and metadata.get("mymetafield") == "Hello",
                   f"{name}: metadata-only write not readable")
            expect(metadata.get("query") == key, f"{name}: metadata-only write has wrong query")
        stored = cache.store_metadata(
            dict(query=key, status="ready", type_identifier="generic", mymetafield="Hello2")
        )
        expect(cache.get(key) is None, f"{name}: data retrievable after 'ready' metadata-only write")
        for k, v in expected.items():
            check_present(name, cache, k, v)
        cache.remove(key)
        check_absent(name, cache, key, "after removing metadata-only entry")
        # store over metadata-only entry
        cache.store_metadata(dict(query=key, status="evaluation"))
        expect(cache.store(make_state(key, 777)), f"{name}: store over metadata-only entry failed")
        expected[key] = 777
        for k, v in expected.items():
            check_present(name, cache, k, v)

    # clean removes everything
    cache.clean()
    for key in keys:
        check_absent(name, cache, key, "after clean")
    expect(list(cache.keys()) == [], f"{name}: keys not empty after final clean")


def check_no_plaintext(name, directory):
    markers = [SECRET_TEXT.encode("ascii"), b'"query"', b'"status"']
    for root, _, files in os.walk(directory):
        for filename in files:
            with open(os.path.join(root, filename), "rb") as f:
                content = f.read()
            for marker in markers:
                expect(marker not in content, f"{name}: plain bytes {marker!r} found in {filename}")


def secret_scenario(name, cache, directory):
    cache.clean()
    for i, key in enumerate(KEYS):
        expect(cache.store(make_state(key, values_for(i))), f"{name}: store({key!r}) not successful")
    cache.store_metadata(dict(query="only/meta", status="evaluation", note=SECRET_TEXT))
    expect(len(os.listdir(directory)) > 0, f"{name}: nothing written to disk")
    check_no_plaintext(name, directory)
    for i, key in enumerate(KEYS):
        check_present(name, cache, key, values_for(i))
    cache.clean()


def combinator_scenarios():
    from liquer.cache import MemoryCache, FileCache, CacheProxy, SQLCache

    # '+' combinator of two full caches
    tmp = tempfile.mkdtemp()
    try:
        scenario("MemoryCache + FileCache", MemoryCache() + FileCache(tmp))
        scenario("FileCache + SQLCache", FileCache(tmp) + SQLCache.from_sqlite())
    finally:
        shutil.rmtree(tmp, ignore_errors=True)

    # proxy
    scenario("CacheProxy(MemoryCache)", CacheProxy(MemoryCache()))
    scenario("CacheProxy(MemoryCache, verbose)", CacheProxy(MemoryCache(), verbose=True))

    # conditional wrappers routing by attribute
    name = "conditional wrappers"
    c1, c2, c3 = MemoryCache(), MemoryCache(), MemoryCache()
    cache = c1.if_contains("abc") + c2.if_not_contains("xyz") + c3
    s1 = make_state("q/1", 1, dict(abc=True))
    s2 = make_state("q/2", 2)
    s3 = make_state("q/3", 3, dict(xyz=True))
    for s in (s1, s2, s3):
        expect(cache.store(s), f"{name}: store({s.query}) failed")
    expect(c1.contains("q/1") and not c2.contains("q/1") and not c3.contains("q/1"), f"{name}: q/1 misplaced")
    expect(c2.contains("q/2") and not c1.contains("q/2") and not c3.contains("q/2"), f"{name}: q/2 misplaced")
    expect(c3.contains("q/3") and not c1.contains("q/3") and not c2.contains("q/3"), f"{name}: q/3 misplaced")
    for key, value in (("q/1", 1), ("q/2", 2), ("q/3", 3)):
        check_present(name, cache, key, value)
    # re-store with different attributes moves the entry, never duplicates it
    expect(cache.store(make_state("q/1", 11, dict(xyz=True))), f"{name}: re-store failed")
    check_present(name, cache, "q/1", 11)
    expect(list(cache.keys()).count("q/1") == 1, f"{name}: q/1 duplicated after re-store")
    expect(c3.contains("q/1") and not c1.contains("q/1"), f"{name}: q/1 stale copy remains")
    cache.remove("q/2")
    check_absent(name, cache, "q/2", "after combinator remove")
    check_present(name, cache, "q/3", 3)
    cache.clean()
    for key in ("q/1", "q/2", "q/3"):
        check_absent(name, cache, key, "after combinator clean")

    name = "attribute-equality wrappers"
    c1, c2, c3 = MemoryCache(), MemoryCache(), MemoryCache()
    cache = c1.if_attribute_equal("abc", 123) + c2.if_attribute_not_equal("xyz", 456) + c3
    s1 = make_state("q-1", "one", dict(abc=123))
    s2 = make_state("q-2", "two")
    s3 = make_state("q-3", "three", dict(xyz=456))
    for s in (s1, s2, s3):
        expect(cache.store(s), f"{name}: store({s.query}) failed")
    expect(c1.contains("q-1") and not c2.contains("q-1") and not c3.contains("q-1"), f"{name}: q-1 misplaced")
    expect(c2.contains("q-2") and not c1.contains("q-2") and not c3.contains("q-2"), f"{name}: q-2 misplaced")
    expect(c3.contains("q-3") and not c1.contains("q-3") and not c2.contains("q-3"), f"{name}: q-3 misplaced")
    for key, value in (("q-1", "one"), ("q-2", "two"), ("q-3", "three")):
        check_present(name, cache, key, value)
    # metadata-only writes are routed by the same rule and never make data retrievable
    expect(cache.store_metadata(dict(query="q-4", status="evaluation", attributes=dict(abc=123))),
           f"{name}: store_metadata failed")
    expect(c1.contains("q-4") and not c2.contains("q-4") and not c3.contains("q-4"), f"{name}: q-4 misplaced")
    expect(cache.get("q-4") is None, f"{name}: data retrievable after metadata-only write")
    expect(cache.store_metadata(dict(query="q-5", status="evaluation", attributes=dict(xyz=456))),
           f"{name}: store_metadata failed")
    expect(c3.contains("q-5") and not c1.contains("q-5") and not c2.contains("q-5"), f"{name}: q-5 misplaced")
    expect(cache.get("q-5") is None, f"{name}: data retrievable after metadata-only write")
    cache.remove("q-1")
    check_absent(name, cache, "q-1", "after combinator remove")
    check_present(name, cache, "q-2", "two")
    check_present(name, cache, "q-3", "three")


def main():
    from liquer.cache import (
        MemoryCache,
        FileCache,
        XORFileCache,
        FernetFileCache,
        StoreCache,
        SQLCache,
        SQLStringCache,
    )
    from liquer.store import MemoryStore

    scenario("MemoryCache", MemoryCache())
    scenario("SQLCache", SQLCache.from_sqlite())
    scenario("SQLStringCache", SQLStringCache.from_sqlite())

    tmp = tempfile.mkdtemp()
    try:
        scenario("FileCache", FileCache(os.path.join(tmp, "file")))
        xor = XORFileCache(os.path.join(tmp, "xor"), b"\x5a\xc3\x17\x99\x2e")
        scenario("XORFileCache", xor)
        secret_scenario("XORFileCache", xor, os.path.join(tmp, "xor"))
        try:
            from cryptography.fernet import Fernet
        except ImportError:
            Fernet = None
        if Fernet is not None:
            fernet = FernetFileCache(os.path.join(tmp, "fernet"), Fernet.generate_key())
            scenario("FernetFileCache", fernet)
            secret_scenario("FernetFileCache", fernet, os.path.join(tmp, "fernet"))
    finally:
        shutil.rmtree(tmp, ignore_errors=True)

    scenario("StoreCache(flat)", StoreCache(MemoryStore(), path="xx", flat=True))
    scenario("StoreCache(path=xx)", StoreCache(MemoryStore(), path="xx"))
    scenario("StoreCache(path='')", StoreCache(MemoryStore(), path=""))

    combinator_scenarios()


if __name__ == "__main__":
    captured = io.StringIO()
    try:
        with contextlib.redirect_stdout(captured), contextlib.redirect_stderr(captured):
            main()
    except Violation as violation:
        print(f"PROPERTY VIOLATED: {violation}")
        sys.exit(1)
    except Exception as error:  # unexpected crash is a violation too
        import traceback

        print(f"PROPERTY VIOLATED: unexpected exception {error!r}")
        traceback.print_exc()
        sys.exit(1)
    print("PROPERTY HOLDS")
    sys.exit(0)
