"""Check of property C09 (cache reuse: cached prefixes are never re-executed).

Run as:  cd <repo root> && /venv/bin/python check.py
"""
import os
import sys

sys.path.insert(0, os.getcwd())

import contextlib
import io
import shutil
import tempfile
import traceback

CALLS = []


def register_commands():
    from liquer import command, first_command
    from liquer.commands import reset_command_registry

    reset_command_registry()

    @first_command
    def start(x=1):
        CALLS.append("start")
        return int(x)

    @command
    def inc(value, by=1):
        CALLS.append("inc")
        return value + int(by)

    @command
    def mul(value, by=2):
        CALLS.append("mul")
        return value * int(by)

    @command
    def text(value, suffix="x"):
        CALLS.append("text")
        return f"{value}{suffix}"

    @command(volatile=True)
    def vol(value):
        CALLS.append("vol")
        return value


def cache_factories(tmp):
    from liquer.cache import (
        MemoryCache,
        FileCache,
        XORFileCache,
        StoreCache,
        SQLCache,
        SQLStringCache,
        CacheCombine,
        CacheIfHasAttributes,
    )
    from liquer.store import MemoryStore

    def d(name):
        return os.path.join(tmp, name)

    factories = [
        ("MemoryCache", lambda: MemoryCache()),
        ("FileCache", lambda: FileCache(d("file"))),
        ("FileCache.from_config", lambda: FileCache.from_config(dict(path=d("filecfg")))),
        ("XORFileCache", lambda: XORFileCache(d("xor"), b"**secret code**")),
        ("StoreCache", lambda: StoreCache(MemoryStore(), path="cache")),
        ("StoreCache-rootpath", lambda: StoreCache(MemoryStore(), path="")),
        ("StoreCache-flat", lambda: StoreCache(MemoryStore(), path="cache", flat=True)),
        ("SQLCache.from_sqlite", lambda: SQLCache.from_sqlite()),
        ("SQLCache.from_sqlite(file)", lambda: SQLCache.from_sqlite(d("cache.sqlite"))),
        ("SQLStringCache.from_sqlite", lambda: SQLStringCache.from_sqlite()),
        ("Combine(Memory+File)", lambda: MemoryCache() + FileCache(d("comb"))),
        (
            "Combine(IfHasAttributes(Memory)+SQL)",
            lambda: CacheCombine(
                CacheIfHasAttributes(MemoryCache(), "never_set"), SQLCache.from_sqlite()
            ),
        ),
        ("IfHasNotAttributes(Memory)", lambda: MemoryCache().if_not_contains("never_set")),
        (
            "AttributeNotEqual(File)",
            lambda: FileCache(d("cond")).if_attribute_not_equal("never_set", 123),
        ),
    ]
    try:
        from cryptography.fernet import Fernet
        from liquer.cache import FernetFileCache

        key = Fernet.generate_key()
        factories.append(("FernetFileCache", lambda: FernetFileCache(d("fernet"), key)))
    except ImportError:
        pass
    return factories


def evaluate_quietly(query):
    from liquer import evaluate

    del CALLS[:]
    with contextlib.redirect_stdout(io.StringIO()):
        state = evaluate(query)
    return state, list(CALLS)


def prefixes(query):
    parts = query.split("/")
    return ["/".join(parts[: i + 1]) for i in range(len(parts))]


def check_cache(name, make_cache, problems):
    from liquer.cache import set_cache

    def bad(msg):
        problems.append(f"[{name}] {msg}")

    # Scenario 1: populate, re-evaluate, extend
    cache = make_cache()
    set_cache(cache)
    q = "start-3/inc-2/mul-4"
    state, calls = evaluate_quietly(q)
    if state.is_error or state.get() != 20:
        bad(f"first evaluation of {q} gave {state.get()!r}")
        return
    if calls != ["start", "inc", "mul"]:
        bad(f"first evaluation of {q} executed {calls}")
    for p, expected in zip(prefixes(q), [3, 5, 20]):
        if not cache.contains(p):
            bad(f"cache does not contain {p} after evaluating {q}")
        cached = cache.get(p)
        if cached is None:
            bad(f"cache.get({p}) is None after evaluating {q}")
        elif cached.get() != expected:
            bad(f"cache.get({p}) gives {cached.get()!r}, expected {expected!r}")
        metadata = cache.get_metadata(p)
        if metadata is None or metadata.get("query") != p:
            bad(f"cache.get_metadata({p}) inconsistent: {metadata!r}")
    keys = sorted(cache.keys())
    if keys != sorted(prefixes(q)):
        bad(f"cache keys after first evaluation: {keys}")

    state, calls = evaluate_quietly(q)
    if state.get() != 20 or calls != []:
        bad(f"re-evaluation of {q} gave {state.get()!r} executing {calls}")

    ext = q + "/inc-7/text-abc"
    state, calls = evaluate_quietly(ext)
    if state.get() != "27abc" or calls != ["inc", "text"]:
        bad(f"extension {ext} gave {state.get()!r} executing {calls}")
    state, calls = evaluate_quietly(ext)
    if state.get() != "27abc" or calls != []:
        bad(f"re-evaluation of {ext} gave {state.get()!r} executing {calls}")

    # extension of a proper prefix
    branch = "start-3/inc-2/mul-5"
    state, calls = evaluate_quietly(branch)
    if state.get() != 25 or calls != ["mul"]:
        bad(f"branch {branch} gave {state.get()!r} executing {calls}")
    if not cache.contains(branch) or cache.get(branch) is None or cache.get(branch).get() != 25:
        bad(f"branch {branch} not served from cache after evaluation")

    # volatile tail: prefix is reused, volatile part is executed again
    vq = "start-3/inc-2/vol"
    state, calls = evaluate_quietly(vq)
    if state.get() != 5 or calls != ["vol"]:
        bad(f"volatile {vq} gave {state.get()!r} executing {calls}")
    state, calls = evaluate_quietly(vq)
    if state.get() != 5 or calls != ["vol"]:
        bad(f"volatile {vq} (2nd) gave {state.get()!r} executing {calls}")

    # one entry per key (no duplicates) after everything
    keys = list(cache.keys())
    if len(keys) != len(set(keys)):
        bad(f"duplicate keys in cache: {sorted(keys)}")

    # Scenario 2: fresh cache of the same kind is independent and gets populated
    # by evaluating the long query directly.
    try:
        cache.clean()
    except Exception:
        bad("clean failed: " + traceback.format_exc())
        return
    state, calls = evaluate_quietly(ext)
    if state.get() != "27abc" or calls != ["start", "inc", "mul", "inc", "text"]:
        bad(f"after clean {ext} gave {state.get()!r} executing {calls}")
    for p in prefixes(ext):
        if not cache.contains(p) or cache.get(p) is None:
            bad(f"after clean+evaluate, {p} not in cache")
    state, calls = evaluate_quietly("start-3/inc-2/mul-4/inc-7")
    if state.get() != 27 or calls != []:
        bad(f"prefix after clean gave {state.get()!r} executing {calls}")


def main():
    problems = []
    tmp = tempfile.mkdtemp(prefix="c09check_")
    try:
        from liquer.cache import set_cache
        from liquer.commands import reset_command_registry

        register_commands()
        with contextlib.redirect_stdout(io.StringIO()):
            factories = cache_factories(tmp)
        for name, make_cache in factories:
            try:
                with contextlib.redirect_stdout(io.StringIO()), contextlib.redirect_stderr(
                    io.StringIO()
                ):
                    check_cache(name, make_cache, problems)
            except Exception:
                problems.append(f"[{name}] exception: {traceback.format_exc()}")
        set_cache(None)
        reset_command_registry()
    except Exception:
        problems.append("exception: " + traceback.format_exc())
    finally:
        shutil.rmtree(tmp, ignore_errors=True)
    if problems:
        print("PROPERTY VIOLATED: " + "; ".join(problems))
        return 1
    print("PROPERTY HOLDS")
    return 0


if __name__ == "__main__":
    sys.exit(main())
