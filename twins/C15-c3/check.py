"""Check of property C15: the overlay store is a copy-on-write view of the fall-back
store which never modifies the fall-back.

Run as:  cd <repo root> && /venv/bin/python check.py
"""
import os
import sys

sys.path.insert(0, os.getcwd())

import copy
import shutil
import tempfile

from liquer.store import (
    FileStore,
    MemoryStore,
    OverlayStore,
    KeyNotFoundStoreException,
)


class Violation(Exception):
    pass


def expect(cond, message):
    if not cond:
        raise Violation(message)


FALLBACK_CONTENT = {
    "a/x.txt": b"fallback x",
    "a/y.txt": b"fallback y",
    "b/z.txt": b"fallback z",
    "top.txt": b"fallback top",
}
UNIVERSE = sorted(
    set(FALLBACK_CONTENT) | {"a", "b", "c", "a/new.txt", "c/n.txt", "c/sub", "c/sub/m.txt"}
)


def raw_snapshot(store):
    """Implementation-level snapshot of a memory or file store."""
    if isinstance(store, MemoryStore):
        return (
            sorted(store.directories),
            copy.deepcopy(store.data),
            copy.deepcopy(store.metadata),
        )
    snap = {}
    for root, dirs, files in os.walk(str(store.path)):
        rel = os.path.relpath(root, str(store.path))
        snap[rel] = None
        for name in files:
            with open(os.path.join(root, name), "rb") as f:
                snap[os.path.join(rel, name)] = f.read()
    return snap


def api_snapshot(store):
    """Snapshot of a store through its public interface."""
    snap = {}
    for key in sorted(store.keys()):
        if store.is_dir(key):
            snap[key] = ("dir", sorted(store.listdir(key)))
        else:
            metadata = store.get_metadata(key)
            snap[key] = ("file", store.get_bytes(key), metadata.get("tag"))
    return snap


class Harness:
    def __init__(self, label, overlay, fallback):
        self.label = label
        self.fallback = fallback
        for key, data in FALLBACK_CONTENT.items():
            fallback.store(key, data, dict(tag="fallback:" + key))
        self.store = OverlayStore(overlay, fallback)
        self.files = dict(FALLBACK_CONTENT)
        self.tags = {key: "fallback:" + key for key in FALLBACK_CONTENT}
        self.dirs = {"a", "b"}
        self.raw0 = raw_snapshot(fallback)
        self.api0 = api_snapshot(fallback)
        self.verify("initial")

    def op(self, name, *arg, **kwarg):
        getattr(self.store, name)(*arg, **kwarg)
        what = f"{name}{arg}"
        expect(
            raw_snapshot(self.fallback) == self.raw0,
            f"[{self.label}] fall-back modified (raw state) by {what}",
        )
        expect(
            api_snapshot(self.fallback) == self.api0,
            f"[{self.label}] fall-back modified (visible content) by {what}",
        )
        self.verify(what)

    def verify(self, what):
        s = self.store
        where = f"[{self.label}] after {what}: "
        for key in UNIVERSE:
            if key in self.files:
                expect(s.contains(key), where + f"contains({key}) is false")
                expect(not s.is_dir(key), where + f"is_dir({key}) true for a file")
                expect(
                    s.get_bytes(key) == self.files[key],
                    where + f"get_bytes({key}) = {s.get_bytes(key)!r}",
                )
                expect(
                    s.get_metadata(key).get("tag") == self.tags[key],
                    where + f"metadata tag of {key} = {s.get_metadata(key).get('tag')!r}",
                )
            elif key in self.dirs:
                expect(s.contains(key), where + f"contains({key}) false for a directory")
                expect(s.is_dir(key), where + f"is_dir({key}) false for a directory")
                children = sorted(
                    k[len(key) + 1 :]
                    for k in list(self.files) + list(self.dirs)
                    if k.startswith(key + "/") and "/" not in k[len(key) + 1 :]
                )
                expect(
                    sorted(s.listdir(key)) == children,
                    where + f"listdir({key}) = {s.listdir(key)!r}, expected {children!r}",
                )
                expect(
                    sorted(s.listdir(key + "/")) == children,
                    where + f"listdir({key}/) = {s.listdir(key + '/')!r}",
                )
                expect(
                    sorted(s.listdir_keys(key)) == [key + "/" + c for c in children],
                    where + f"listdir_keys({key}) = {s.listdir_keys(key)!r}",
                )
            else:
                expect(not s.contains(key), where + f"contains({key}) true for absent key")
                expect(not s.is_dir(key), where + f"is_dir({key}) true for absent key")
                if "." in key:
                    try:
                        s.get_bytes(key)
                    except KeyNotFoundStoreException:
                        pass
                    else:
                        raise Violation(where + f"get_bytes({key}) did not raise")
                    try:
                        s.get_metadata(key)
                    except KeyNotFoundStoreException:
                        pass
                    else:
                        raise Violation(where + f"get_metadata({key}) did not raise")
        expected_keys = sorted(set(self.files) | self.dirs)
        got = s.keys()
        expect(got == expected_keys, where + f"keys() = {got!r}, expected {expected_keys!r}")
        top = sorted(set(k.split("/")[0] for k in expected_keys))
        expect(sorted(s.listdir("")) == top, where + f"listdir('') = {s.listdir('')!r}")

    # model-updating wrappers -------------------------------------------------
    def put(self, key, data, tag):
        self.files[key] = data
        self.tags[key] = tag
        parent = key
        while "/" in parent:
            parent = parent.rsplit("/", 1)[0]
            self.dirs.add(parent)
        self.op("store", key, data, dict(tag=tag))

    def remove(self, key):
        self.files.pop(key, None)
        self.tags.pop(key, None)
        self.op("remove", key)

    def removedir(self, key, recursive=False):
        if recursive:
            for k in list(self.files):
                if k.startswith(key + "/"):
                    del self.files[k]
                    del self.tags[k]
            for k in list(self.dirs):
                if k.startswith(key + "/"):
                    self.dirs.discard(k)
        if not any(k.startswith(key + "/") for k in list(self.files) + list(self.dirs)):
            self.dirs.discard(key)
        self.op("removedir", key, recursive=recursive)

    def makedir(self, key):
        self.dirs.add(key)
        self.op("makedir", key)


def scenario(h):
    # shadowing of fall-back content by a write through the overlay
    h.put("a/x.txt", b"overlay x", "ov1")
    h.put("a/x.txt", b"overlay x again", "ov2")
    # new content only in the overlay
    h.put("a/new.txt", b"new", "new")
    h.put("c/n.txt", b"n", "n")
    # metadata update of an overlay key
    h.tags["a/new.txt"] = "updated"
    h.op("store_metadata", "a/new.txt", dict(tag="updated"))
    # masking: remove fall-back only key, shadowed key, overlay only key
    h.remove("top.txt")
    h.remove("a/x.txt")
    h.remove("a/new.txt")
    # removing again is harmless
    h.remove("top.txt")
    # re-creation after removal
    h.put("top.txt", b"top again", "again")
    h.put("a/x.txt", b"x again", "x again")
    h.remove("top.txt")
    # non-recursive removedir of a non-empty directory keeps it
    h.removedir("b")
    # recursive removal of a fall-back directory, then re-creation of the directory
    h.removedir("b", recursive=True)
    h.makedir("b")
    h.put("b/z.txt", b"z again", "z again")
    # directories and recursive removal in the overlay only
    h.makedir("c/sub")
    h.put("c/sub/m.txt", b"m", "m")
    if isinstance(h.store.overlay, MemoryStore):
        h.removedir("c", recursive=True)
    else:
        h.remove("c/sub/m.txt")
        h.remove("c/n.txt")
    # remove and shadow the remaining fall-back content of a directory
    h.remove("a/y.txt")
    h.put("a/y.txt", b"y again", "y again")
    h.tags["a/y.txt"] = "y meta"
    h.op("store_metadata", "a/y.txt", dict(tag="y meta"))


def main():
    tmp = tempfile.mkdtemp(prefix="c15_check_")
    try:
        n = 0
        for overlay_kind in ("memory", "file"):
            for fallback_kind in ("memory", "file"):
                n += 1

                def make(kind, role):
                    if kind == "memory":
                        return MemoryStore()
                    path = os.path.join(tmp, f"{n}_{role}")
                    os.makedirs(path)
                    return FileStore(path)

                h = Harness(
                    f"{overlay_kind} over {fallback_kind}",
                    make(overlay_kind, "overlay"),
                    make(fallback_kind, "fallback"),
                )
                scenario(h)
    except Violation as e:
        print(f"PROPERTY VIOLATED: {e}")
        return 1
    except Exception as e:
        import traceback

        traceback.print_exc()
        print(f"PROPERTY VIOLATED: unexpected exception {e!r}")
        return 1
    finally:
        shutil.rmtree(tmp, ignore_errors=True)
    print("PROPERTY HOLDS")
    return 0


if __name__ == "__main__":
    sys.exit(main())
