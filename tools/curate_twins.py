#!/usr/bin/env python3
"""Confirm benign refactors (behaviour-preserving edits made by independent sub-agents) against the current /repo HEAD and keep the
confirmed ones as twins/<ID>-b<n>/ (patch.diff, check.py, meta.json).  Confirmed = applies, the agent's own property check still
exits 0 with the edit applied, and the pinned suite is unchanged (216 passed / 3 failed / 15 errors).
usage: tools/curate_twins.py /tmp/ben5_out [ID ...]"""
import glob
import json
import os
import shutil
import subprocess
import sys
from concurrent.futures import ThreadPoolExecutor

SRC = sys.argv[1]
ONLY = sys.argv[2:]
OUT = "/verif/twins"
PY = "/venv/bin/python"
PYTEST = [PY, "-m", "pytest", "-q", "-p", "no:cacheprovider", "--timeout=900", "--continue-on-collection-errors"]


def sh(cmd, cwd=None, timeout=900):
    try:
        r = subprocess.run(cmd, cwd=cwd, capture_output=True, text=True, timeout=timeout)
        return r.returncode, r.stdout + r.stderr
    except subprocess.TimeoutExpired:
        return 124, "timeout"


def one(patch):
    d = os.path.dirname(patch)
    pid = os.path.basename(d)
    n = os.path.basename(patch)[5:-5]
    name = f"{pid}-{os.environ.get("TWIN_TAG", "b")}{n}"
    wt = f"/tmp/curtw/{name}"
    res = {"name": name}
    sh(["git", "-C", "/repo", "worktree", "remove", "--force", wt])
    rc, out = sh(["git", "-C", "/repo", "worktree", "add", "-q", "--detach", wt, "HEAD"])
    if rc:
        return {**res, "status": "worktree-failed", "detail": out[-300:]}
    try:
        rc, out = sh(["git", "apply", patch], cwd=wt)
        if rc:
            return {**res, "status": "patch-failed", "detail": out[-200:]}
        chk = os.path.join(d, "check.py")
        rcc = None
        if os.path.exists(chk):
            shutil.copy(chk, os.path.join(wt, "check_twin.py"))
            rcc, oc = sh([PY, "check_twin.py"], cwd=wt, timeout=600)
            os.remove(os.path.join(wt, "check_twin.py"))
        res["check"] = rcc
        rct, ot = sh(PYTEST, cwd=wt, timeout=1500)
        tail = [l for l in ot.splitlines() if " passed" in l or " failed" in l][-1:] or [ot[-200:]]
        res["tests"] = tail[0].strip()
        ok = "216 passed" in tail[0] and "3 failed" in tail[0] and "15 errors" in tail[0] and rcc in (0, None)
        res["status"] = "confirmed" if ok else "rejected"
        if ok:
            _, diff = sh(["git", "diff", "--", "liquer"], cwd=wt)
            od = os.path.join(OUT, name)
            os.makedirs(od, exist_ok=True)
            open(os.path.join(od, "patch.diff"), "w").write(diff)
            if os.path.exists(chk):
                shutil.copy(chk, os.path.join(od, "check.py"))
            meta = {}
            try:
                meta = json.load(open(os.path.join(d, f"meta{n}.json")))
            except Exception:
                pass
            head = subprocess.check_output(["git", "-C", "/repo", "rev-parse", "--short", "HEAD"], text=True).strip()
            meta.update({"name": name, "property": pid, "confirmed_against": head,
                         "what_was_run": [f"agent's property check with the edit applied: exit {rcc}", f"pinned test suite with the edit applied: {tail[0].strip()}"],
                         "origin": "independent sub-agent given only the property text and a scratch worktree, asked for behaviour-preserving refactors"})
            json.dump(meta, open(os.path.join(od, "meta.json"), "w"), indent=1)
        return res
    finally:
        sh(["git", "-C", "/repo", "worktree", "remove", "--force", wt])
        shutil.rmtree(wt, ignore_errors=True)


def main():
    os.makedirs("/tmp/curtw", exist_ok=True)
    patches = sorted(glob.glob(os.path.join(SRC, "*", "patch*.diff")))
    if ONLY:
        patches = [p for p in patches if any(f"/{o}/" in p for o in ONLY)]
    with ThreadPoolExecutor(6) as ex:
        for r in ex.map(one, patches):
            print(json.dumps(r))
    sh(["git", "-C", "/repo", "worktree", "prune"])


if __name__ == "__main__":
    main()
