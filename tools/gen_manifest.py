#!/usr/bin/env python3
"""Regenerate /verif/MANIFEST.json from the table below (kept in one place so it stays valid)."""
import json
import os

VERIF = os.path.dirname(os.path.dirname(os.path.abspath(__file__)))

# property -> (technique, level text, level note = what is NOT decided / trusted base)
T = {
 "C01": ("CFG dominance + def-use over Context.evaluate/evaluate_action/apply; sibling-ladder and table agreement in commands.py",
         "Decides the skeleton clauses of the composition law on every path of the named functions (recursion on (predecessor, last step), parameter forwarding, order-preserving argument expansion, link routing, executable wrappers, parser-selection table vs converters, namespace resolution order, default filling).",
         "NOT decided: equality of value / variables / last command with a reference interpretation for every query (value-level). Trusted: CPython ast; implicit exceptions outside try are not modelled."),
 "C02": ("grammar/printer extraction: pyparsing IR -> relaxed CFG recogniser (superset) and exact deterministic recogniser; abstract interpretation of encode() -> printer sentences; class-directed membership; start-rule priority with witness spelling; printer injectivity; field-read completeness",
         "Decides printer-subset-of-parser on enumerated printer sentences for all constructor shapes reachable from the parse actions (alarms are exact because the recogniser accepts a superset of the real parser's language), that encode reads every structural field, parseAll on both entry points, and that identities derive from encode().",
         "NOT decided: structural identity of the re-parse for every accepted string (PEG ordered-choice/greediness effects inside the relaxed language)."),
 "C03": ("table/IR premise discharge (T1-T16) of a paper round-trip lemma, re-established from ESCAPE_SEQUENCES, the entity grammar and the token functions on every run",
         "Decides all 16 premises of the lemma 'decode(encode(x)) == x, encoded text in [A-Za-z0-9_.~%]*, no bare separator' on the extracted tables and grammar IR.",
         "The lemma itself is on paper (DESIGN.md C03) and the semantics of str.replace / urllib.parse.quote / unquote / pyparsing combinators are trusted."),
 "C04": ("CFG dominance / reaching definitions in Context.evaluate; copy-discipline lint on MemoryCache",
         "Decides the clauses whose violation lets a hit differ from a miss: read-bypass implies write-bypass, lookup key == filing key == canonical text, cache handed down the recursion, in-memory copy-in/copy-out, ready gate and data-presence witness per back-end.",
         "NOT decided: equality of outcomes across cache kinds and warm-up histories; serialisation fidelity (C11)."),
 "C05": ("edge-dominance of the admission guard, path rules for volatility/caching flags, sibling rules over the four leaf back-ends",
         "Decides admission structurally: guard conjuncts, stale-entry removal, volatility propagation, caching-flag conjunction, read-bypass => write-bypass, error refusal + ready gate per back-end, canonical filing key, data-presence witness.",
         "NOT decided: that the value a cache serves equals a fresh evaluation; admission along arbitrary histories."),
 "C06": ("CFG dominance / must-pass-through on the error paths; call-site argument discipline (position=, query=); attribute-resolution lint",
         "Decides short-circuit after a failed predecessor, total exception capture that marks the state, position+query on every failure report, positions originating in parse actions, link failures surfacing, State.get raising on error, resource failures marking the state through methods that exist.",
         "NOT decided: correctness of position values; failures swallowed inside user commands."),
 "C07": ("interface-completeness and forwarding discipline over the store class hierarchy; effect summaries for read methods; exit-shape rules",
         "Decides API completeness of every store/wrapper, metadata finalisation at every leaf store(), data+metadata written/removed together, ancestor creation, write-free reads, not-found-is-an-exception, verbatim proxy forwarding with notifications after the forwarded call.",
         "NOT decided: agreement with a reference file-system model over histories; listing exactness; checksum values."),
 "C08": ("CFG dominance in the recipe store; must-pass-through of _store_state on every exit of Context.evaluate; sibling cross-check of the serialisation extension",
         "Decides make-only-when-absent, declared keys visible through every listing/predicate, recipe life-cycle fields, relative paths resolved against the recipe directory (root-translated), one rule for the stored format, routing of the evaluation to the store key, cache hits still materialising the key.",
         "NOT decided: evaluation counts, byte equality with a direct evaluation, read/remove/re-read histories."),
 "C09": ("CFG dominance (lookup before work, early return), def-use of the cache variable, location-expression agreement per back-end, constant propagation through factories",
         "Decides the structural conditions for reuse at every recursion level and per back-end (writer/reader location agreement, one row per key from every factory, combinators), and that progress metadata cannot clobber a finished entry before the lookup.",
         "NOT decided: the number of commands executed on re-evaluation (dynamic)."),
 "C10": ("who-may-touch lint for the variable defaults, copy-discipline lint (clone/deepcopy) on State, MemoryCache and the state types, CFG dominance for the vars reset",
         "Decides that defaults are only deep-copied out, commands run on a clone of a non-volatile input, State.clone/next_state deep-copy, the in-memory cache is copy-in/copy-out, every armed state type's copy() is fresh, variables thread left to right.",
         "NOT decided: leaks through objects shared by user commands."),
 "C11": ("table extraction per state type (writer/reader extension sets, identifiers), injection lint on the hand-built djson text",
         "Decides default extension in W and R for the armed types, identifier uniqueness across all shipped types, registry keyed by the same identifier on both sides, djson interpolations escaped, element triple order agreement, copy freshness.",
         "NOT decided: value equality after a round trip for any format."),
 "C12": ("ordering rule on the write effects of each back-end's store(); data-presence witness; ready gate; placeholder-only metadata writes in the in-memory cache (path rule)",
         "Decides only the clause 'an entry still being produced is never served as finished': data published before/with the ready marker per back-end, witness per back-end, get() gated on ready.",
         "NOT decided: serialisability over interleavings - there is no lock discipline to analyse; that is a model-checking question (stated in DESIGN.md)."),
 "C13": ("sibling/forwarding rules over all cache classes, SQL effect summaries (memo invalidation, delete-before-insert with factory constant propagation), codec-discipline lint",
         "Decides API completeness, data-presence witness, memo invalidation, one row per key, combinators reaching both children, verbatim forwarding, injective key->location construction, codec discipline of XOR/Fernet caches, both halves removed, writer/reader location agreement, copy-in/copy-out.",
         "NOT decided: value equality of what is read back; behaviour over arbitrary histories and adversarial key sets."),
 "C14": ("forwarding/translation discipline over KeyTranslatingStore/PrefixStore/RoutingStore/MountPointStore; pair rule (mount insertion side, scan direction); boolean-return lint",
         "Decides translate-exactly-once forwarding, prefix algebra, routing with untranslated key, last-mount-wins consistency at component boundaries, union views consulting every part, boolean predicates, global helpers.",
         "NOT decided: exactness of the union views over mount tables and histories."),
 "C15": ("who-may-call on OverlayStore.fallback (with canary), tombstone-first ordering, writes-go-up rule, exit-shape rule",
         "Fully decides 'no call-borne effect on the fall-back'; decides tombstone test first on every read, writes to overlay + tombstone cleared, removal masks (also at the root), not-found is an exception.",
         "NOT decided: shadow/mask semantics over histories (e.g. metadata update of a fall-back-only key)."),
 "C16": ("typestate over the ordered file-system effects of each entry writer (temp+replace protocol or marker protocol), reader-gate table, corrupt-metadata handlers",
         "Decides per writer whether the final path is produced by an atomic replace or by a marker protocol the reader gates on; corrupt metadata treated as missing; removal order.",
         "NOT decided: behaviour at each individual crash point (fault enumeration is a different family)."),
 "C17": ("derived mutator set vs ReadOnlyStore overrides (all paths raise); taint-style path rule: every FS effect of FileStore goes through the two path constructors, which must be dominated by a containment guard",
         "Fully structural for the two boundary clauses: override completeness of the read-only view and confinement of every FileStore path construction.",
         "Reads through the view are decided only as verbatim forwarding."),
 "C18": ("edge rules in evaluate_action (status <=> error flag), dominance of the canonical label on every exit, identity of the filed and returned object, who-may-write State.data",
         "Decides status/error agreement on both edges, canonical query label on every state-returning exit, kept copy == returned copy, last action recorded with ns+metadata, attribute persistence rule, type identifier recomputed with the data.",
         "NOT decided: truthfulness of metadata values; agreement of copies after serialisation."),
 "C19": ("abstract interpretation (EMPTY/NONEMPTY/MAYBE) of the accumulator in _query_to_absolute; branch rules; segment pass-through",
         "Decides no re-anchoring (the anchoring branches cannot be re-enabled after the first component is consumed), '..' either shortens a provably non-empty list or raises, untouched segments passed through, call sites resolving against directories.",
         "NOT decided: equivalence with POSIX normpath on all inputs; idempotence."),
 "C20": ("route-table extraction from blueprint.py/handlers.py vs library operations; gate dominance for remote registration; client<->server table agreement; undefined-name lint on RemoteStore; JSON-safety flow rule",
         "Decides the registration gate, endpoint <-> library operation identity table in both servers, JSON-safety of listed results, failure => error status, RemoteStore endpoint/verb/key agreement with the handlers, extra parameters only from the request.",
         "NOT decided: byte/MIME equality of HTTP bodies with in-process evaluation; effects of endpoint histories."),
}

NA_REASONS = {}


def main():
    checks = []
    na = []
    for i in range(1, 21):
        p = f"C{i:02d}"
        tech, text, note = T[p]
        if not os.path.exists(os.path.join(VERIF, "sa", "rules", p.lower() + ".py")):
            na.append({"property_id": p, "reason": NA_REASONS.get(p, "check not built yet in this round (designed in DESIGN.md section 2); not claimed until its rule module exists")})
            continue
        checks.append({
            "property_id": p,
            "quick_cmd": f"./check {p} --tier quick",
            "thorough_cmd": f"./check {p} --tier thorough",
            "evidence_file": f"/verif/evidence/{p}.json",
            "replay_cmd_template": "cat {path}",
            "engine": "sa",
            "level_claimed": {"category": "other", "text": text + " Claimed at clause level only (necessary conditions visible in the shape of the code), never the behavioural property as a whole.",
                              "design_ref": f"DESIGN.md section 2, {p}"},
            "level_note": note,
            "technique": "static analysis: " + tech,
        })
    m = {
        "version": 1,
        "setup_cmd": "true",
        "hooks": {"guard": "OREST_D_LIQUER_VERIF", "enable": "none needed: the checks only parse /repo's sources (no instrumentation, no hook commits)",
                  "baseline_off_cmd": "cd /repo && /venv/bin/python -m pytest -ra -q -p no:cacheprovider --timeout=900 --continue-on-collection-errors",
                  "source_commits": [], "add_only": True},
        "engines": [{"name": "sa", "path": "/verif/sa", "serves_properties": [c["property_id"] for c in checks],
                     "kind_free_text": "repository-specific static analysis on CPython ast: class index/MRO, statement CFG with reachability-under-removal (dominance, must-pass-through, edge dominance), syntactic reaching definitions, effect scans, table/grammar extraction (relaxed and exact recognisers); a behaviour-preserving canonicalisation pipeline (helper inlining, local renaming by defining form, conditional/boolean/generator normal forms) runs before the rules so that refactors do not raise alarms; stdlib only, never imports or runs liquer"}],
        "checks": checks,
        "notes": "Exit 0 = all rule instances hold (KNOWN-FINDING lines for listed findings); 1 = VIOLATION; 2 = ANALYSIS-ERROR (anchor vanished / instance floor not met). Thorough = quick + wider enumeration bounds + cross-reference of out-of-quantifier implementations + mutant/benign-twin self-validation on scratch copies under $TMPDIR.",
        "not_applicable": na,
    }
    with open(os.path.join(VERIF, "MANIFEST.json"), "w") as f:
        json.dump(m, f, indent=1)
    print(f"{len(checks)} checks, {len(na)} not applicable")


if __name__ == "__main__":
    main()
