#!/usr/bin/env python3
"""Benign-variant fuzzer: generate behaviour-preserving variants of /repo and make sure every check stays silent.

  A. whole-package `ast.unparse` round trip (formatting, quoting, parenthesisation, comments)
  B. for every function of the core modules: rename one local variable at a time (suffix `_renamed`)
  C. for every function of the core modules: insert a no-op statement (`pass`) at the top of the body

Every alarm (exit 1) or analysis error (exit 2) on a variant is brittleness of a rule, printed with the variant.
usage: tools/twinfuzz.py [A|B|C ...] [--props C01,C05] [--limit N]
"""
import ast
import importlib
import os
import shutil
import sys
import tempfile
from concurrent.futures import ProcessPoolExecutor

VERIF = os.path.dirname(os.path.dirname(os.path.abspath(__file__)))
sys.path.insert(0, VERIF)
from sa.core import Repo, Check, AnalysisError, run_rules, unlisted_violations  # noqa: E402

CORE = ["liquer/context.py", "liquer/cache.py", "liquer/parser.py", "liquer/store.py", "liquer/commands.py", "liquer/state.py",
        "liquer/state_types.py", "liquer/recipes.py", "liquer/server/blueprint.py", "liquer/remote_store.py"]
ALL = [f"C{i:02d}" for i in range(1, 21)]


def functions(tree):
    out = []
    for n in tree.body:
        if isinstance(n, (ast.FunctionDef, ast.AsyncFunctionDef)):
            out.append((n.name, n))
        elif isinstance(n, ast.ClassDef):
            for m in n.body:
                if isinstance(m, (ast.FunctionDef, ast.AsyncFunctionDef)):
                    out.append((f"{n.name}.{m.name}", m))
    return out


def local_names(fn):
    params = {a.arg for a in fn.args.args + fn.args.kwonlyargs + fn.args.posonlyargs}
    if fn.args.vararg:
        params.add(fn.args.vararg.arg)
    if fn.args.kwarg:
        params.add(fn.args.kwarg.arg)
    glob = set()
    for n in ast.walk(fn):
        if isinstance(n, (ast.Global, ast.Nonlocal)):
            glob |= set(n.names)
    stored = set()
    nested_names = set()
    for n in ast.walk(fn):
        if n is not fn and isinstance(n, (ast.FunctionDef, ast.AsyncFunctionDef, ast.Lambda, ast.ClassDef)):
            # names touched by a nested scope are left alone (a naive rename across closures is unsafe)
            nested_names |= {x.id for x in ast.walk(n) if isinstance(x, ast.Name)} | {a.arg for x in ast.walk(n) if isinstance(x, ast.arguments) for a in x.args}
            if hasattr(n, "name"):
                nested_names.add(n.name)
        if isinstance(n, ast.Name) and isinstance(n.ctx, ast.Store):
            stored.add(n.id)
    return sorted(stored - params - glob - nested_names)


class Rename(ast.NodeTransformer):
    def __init__(self, old, new):
        self.old, self.new = old, new

    def visit_Name(self, node):
        if node.id == self.old:
            return ast.copy_location(ast.Name(id=self.new, ctx=node.ctx), node)
        return node

    def visit_ExceptHandler(self, node):
        self.generic_visit(node)
        if node.name == self.old:
            node.name = self.new
        return node


def variants(kinds):
    out = []
    if "A" in kinds:
        out.append(("A", "unparse-roundtrip", None, None))
    for rel in CORE:
        src = open(os.path.join("/repo", rel)).read()
        tree = ast.parse(src)
        for q, fn in functions(tree):
            if "B" in kinds:
                for v in local_names(fn):
                    out.append(("B", f"{rel}:{q}: rename local `{v}`", rel, (q, v)))
            if "C" in kinds and len(fn.body) > 0:
                out.append(("C", f"{rel}:{q}: leading pass", rel, (q, None)))
            if "D" in kinds and len(fn.body) > 0:
                out.append(("D", f"{rel}:{q}: leading print()", rel, (q, None)))
            if "G" in kinds:
                ifs = [n for n in ast.walk(fn) if isinstance(n, ast.If) and n.orelse and not (len(n.orelse) == 1 and isinstance(n.orelse[0], ast.If))]
                nested = any(isinstance(n, (ast.FunctionDef, ast.AsyncFunctionDef)) for n in ast.walk(fn) if n is not fn)
                if ifs and not nested:
                    out.append(("G", f"{rel}:{q}: if/else branches inverted ({len(ifs)})", rel, (q, None)))
            if "J" in kinds:
                dcs = [n for n in ast.walk(fn) if isinstance(n, ast.Call) and isinstance(n.func, ast.Name) and n.func.id == "dict" and not n.args
                       and n.keywords and all(k.arg for k in n.keywords)]
                if dcs:
                    out.append(("J", f"{rel}:{q}: dict(k=v) calls as literals ({len(dcs)})", rel, (q, None)))
            if "L" in kinds:
                def _term(blk):
                    return bool(blk) and isinstance(blk[-1], (ast.Return, ast.Raise))
                els = [n for n in ast.walk(fn) if isinstance(n, ast.If) and n.orelse and _term(n.body)]
                if els:
                    out.append(("L", f"{rel}:{q}: else after return/raise removed ({len(els)})", rel, (q, None)))
            if "M" in kinds:
                def _blocks(n_):
                    for f_ in ("body", "orelse", "finalbody"):
                        b_ = getattr(n_, f_, None)
                        if isinstance(b_, list) and b_ and isinstance(b_[0], ast.stmt):
                            yield b_
                    for h in getattr(n_, "handlers", []) or []:
                        yield h.body
                cnt = 0
                for n_ in ast.walk(fn):
                    for b_ in _blocks(n_):
                        for i_, st_ in enumerate(b_[:-1]):
                            if isinstance(st_, ast.If) and not st_.orelse and st_.body and isinstance(st_.body[-1], (ast.Return, ast.Raise)):
                                cnt += 1
                if cnt:
                    out.append(("M", f"{rel}:{q}: rest of block moved into else after a guard clause ({cnt})", rel, (q, None)))
            if "H" in kinds:
                cmps = [n for n in ast.walk(fn) if isinstance(n, ast.Compare) and len(n.ops) == 1 and isinstance(n.ops[0], (ast.Eq, ast.NotEq))]
                if cmps:
                    out.append(("H", f"{rel}:{q}: operands of ==/!= swapped ({len(cmps)})", rel, (q, None)))
            if "I" in kinds:
                nest = [n for n in ast.walk(fn) if isinstance(n, ast.If) and not n.orelse and len(n.body) == 1 and isinstance(n.body[0], ast.If) and not n.body[0].orelse]
                ands = [n for n in ast.walk(fn) if isinstance(n, ast.If) and not n.orelse and isinstance(n.test, ast.BoolOp) and isinstance(n.test.op, ast.And)]
                if nest:
                    out.append(("I", f"{rel}:{q}: nested ifs merged with `and` ({len(nest)})", rel, (q, "merge")))
                if ands:
                    out.append(("I", f"{rel}:{q}: `and` conditions split into nested ifs ({len(ands)})", rel, (q, "split")))
            if "E" in kinds:
                rets = [n for n in ast.walk(fn) if isinstance(n, ast.Return) and n.value is not None and not isinstance(n.value, (ast.Constant, ast.Name))]
                nested = any(isinstance(n, (ast.FunctionDef, ast.AsyncFunctionDef, ast.Lambda)) for n in ast.walk(fn) if n is not fn)
                gen = any(isinstance(n, (ast.Yield, ast.YieldFrom)) for n in ast.walk(fn))
                if rets and not nested and not gen:
                    out.append(("E", f"{rel}:{q}: return value through a local", rel, (q, None)))
    return out


def make_variant(sc, kind, rel, arg):
    if kind == "A":
        for dp, dn, fn in os.walk(os.path.join(sc, "liquer")):
            for f in fn:
                if f.endswith(".py"):
                    p = os.path.join(dp, f)
                    t = ast.parse(open(p).read())
                    open(p, "w").write(ast.unparse(t) + "\n")
        return
    p = os.path.join(sc, rel)
    tree = ast.parse(open(p).read())
    q, v = arg
    for qq, fn in functions(tree):
        if qq == q:
            if kind == "B":
                Rename(v, v + "_renamed").visit(fn)
            elif kind == "D":
                doc = 1 if (fn.body and isinstance(fn.body[0], ast.Expr) and isinstance(fn.body[0].value, ast.Constant) and isinstance(fn.body[0].value.value, str)) else 0
                fn.body.insert(doc, ast.parse("print('trace')").body[0])
            elif kind == "G":
                for n in ast.walk(fn):
                    if isinstance(n, ast.If) and n.orelse and not (len(n.orelse) == 1 and isinstance(n.orelse[0], ast.If)):
                        n.test = ast.UnaryOp(op=ast.Not(), operand=n.test)
                        n.body, n.orelse = n.orelse, n.body
            elif kind == "M":
                def fixm(block):
                    for st in block:
                        for f_ in ("body", "orelse", "finalbody"):
                            b_ = getattr(st, f_, None)
                            if isinstance(b_, list) and b_ and isinstance(b_[0], ast.stmt):
                                fixm(b_)
                        for h in getattr(st, "handlers", []) or []:
                            fixm(h.body)
                    for i in range(len(block) - 1):
                        st = block[i]
                        if isinstance(st, ast.If) and not st.orelse and st.body and isinstance(st.body[-1], (ast.Return, ast.Raise)):
                            st.orelse = block[i + 1:]
                            del block[i + 1:]
                            break
                fixm(fn.body)
            elif kind == "J":
                class DJ(ast.NodeTransformer):
                    def visit_Call(self, n):
                        self.generic_visit(n)
                        if isinstance(n.func, ast.Name) and n.func.id == "dict" and not n.args and n.keywords and all(k.arg for k in n.keywords):
                            return ast.copy_location(ast.Dict(keys=[ast.Constant(k.arg) for k in n.keywords], values=[k.value for k in n.keywords]), n)
                        return n
                DJ().visit(fn)
            elif kind == "L":
                def fix(block):
                    i = 0
                    while i < len(block):
                        st = block[i]
                        for f_ in ("body", "orelse", "finalbody"):
                            b_ = getattr(st, f_, None)
                            if isinstance(b_, list) and b_ and isinstance(b_[0], ast.stmt):
                                fix(b_)
                        for h in getattr(st, "handlers", []) or []:
                            fix(h.body)
                        if isinstance(st, ast.If) and st.orelse and st.body and isinstance(st.body[-1], (ast.Return, ast.Raise)):
                            tail = st.orelse
                            st.orelse = []
                            block[i + 1:i + 1] = tail
                        i += 1
                fix(fn.body)
            elif kind == "H":
                for n in ast.walk(fn):
                    if isinstance(n, ast.Compare) and len(n.ops) == 1 and isinstance(n.ops[0], (ast.Eq, ast.NotEq)):
                        n.left, n.comparators[0] = n.comparators[0], n.left
            elif kind == "I":
                class NI(ast.NodeTransformer):
                    def visit_If(self, node):
                        self.generic_visit(node)
                        if v == "merge" and not node.orelse and len(node.body) == 1 and isinstance(node.body[0], ast.If) and not node.body[0].orelse:
                            inner = node.body[0]
                            return ast.copy_location(ast.If(test=ast.BoolOp(op=ast.And(), values=[node.test, inner.test]), body=inner.body, orelse=[]), node)
                        if v == "split" and not node.orelse and isinstance(node.test, ast.BoolOp) and isinstance(node.test.op, ast.And):
                            vals = node.test.values
                            inner = ast.If(test=vals[-1] if len(vals) == 2 else ast.BoolOp(op=ast.And(), values=vals[1:]), body=node.body, orelse=[])
                            return ast.copy_location(ast.If(test=vals[0], body=[inner], orelse=[]), node)
                        return node
                NI().visit(fn)
            elif kind == "E":
                class Ret(ast.NodeTransformer):
                    def visit_FunctionDef(self, node):
                        if node is fn:
                            self.generic_visit(node)
                        return node
                    def visit_Return(self, node):
                        if node.value is None or isinstance(node.value, (ast.Constant, ast.Name)):
                            return node
                        a = ast.Assign(targets=[ast.Name(id="result_value", ctx=ast.Store())], value=node.value)
                        r = ast.Return(value=ast.Name(id="result_value", ctx=ast.Load()))
                        return [ast.copy_location(a, node), ast.copy_location(r, node)]
                Ret().visit(fn)
            else:
                doc = 1 if (fn.body and isinstance(fn.body[0], ast.Expr) and isinstance(fn.body[0].value, ast.Constant) and isinstance(fn.body[0].value.value, str)) else 0
                fn.body.insert(doc, ast.Pass())
    ast.fix_missing_locations(tree)
    open(p, "w").write(ast.unparse(tree) + "\n")


def run(job):
    kind, name, rel, arg, props = job
    sc = tempfile.mkdtemp(prefix="verif_twin_", dir=os.environ.get("TMPDIR", "/tmp"))
    try:
        shutil.copytree("/repo/liquer", os.path.join(sc, "liquer"), ignore=shutil.ignore_patterns("__pycache__"))
        make_variant(sc, kind, rel, arg)
        bad = []
        for p in props:
            mod = importlib.import_module(f"sa.rules.{p.lower()}")
            try:
                repo = Repo(sc)
                chk = Check(p, repo, "quick")
                errs = run_rules(mod, chk)
                v = sorted({o.rule for o in unlisted_violations(chk)})
                if v:
                    bad.append((p, "VIOLATION", v))
                if errs:
                    bad.append((p, "ANALYSIS-ERROR", [x[:100] for x in errs[:2]]))
            except AnalysisError as e:
                bad.append((p, "ANALYSIS-ERROR", [str(e)[:100]]))
            except Exception as e:   # noqa
                bad.append((p, "CRASH", [repr(e)[:100]]))
        return name, bad
    finally:
        shutil.rmtree(sc, ignore_errors=True)


def main():
    args = sys.argv[1:]
    props = ALL
    limit = None
    kinds = [a for a in args if a in ("A", "B", "C", "D", "E", "G", "H", "I", "J", "L", "M")] or ["A", "B", "C", "D", "E", "G", "H", "I", "J", "L", "M"]
    for i, a in enumerate(args):
        if a == "--props":
            props = args[i + 1].split(",")
        if a == "--limit":
            limit = int(args[i + 1])
    vs = variants(kinds)
    if limit:
        vs = vs[:limit]
    import glob, json
    consult = {}
    for f in glob.glob(os.path.join(VERIF, "evidence", "C*.json")):
        e = json.load(open(f))
        for m in e["coverage"].get("modules_consulted", []):
            consult.setdefault(m.replace(".", "/") + ".py", set()).add(e["property_id"])
    jobs = []
    for k, n, r, a in vs:
        ps = props if r is None else [p for p in props if p in consult.get(r, set(props))]
        if ps:
            jobs.append((k, n, r, a, ps))
    nbad = 0
    with ProcessPoolExecutor(16) as ex:
        for name, bad in ex.map(run, jobs, chunksize=4):
            if bad:
                nbad += 1
                for p, st, v in bad:
                    print(f"{st:14s} {p} {v}  <= {name}")
    print(f"{len(jobs)} benign variants, {nbad} with an alarm")


if __name__ == "__main__":
    main()
