#!/usr/bin/env python3
"""Generate /verif/RULES.md (rule catalogue as built) from the evidence files written by the checks."""
import glob, json, os
V = os.path.dirname(os.path.dirname(os.path.abspath(__file__)))
out = ["# Rule catalogue as built (generated from evidence/*.json by tools/gen_rules_md.py)\n"]
tot_r = tot_o = 0
for f in sorted(glob.glob(os.path.join(V, "evidence", "C*.json"))):
    e = json.load(open(f))
    c = e["coverage"]
    out.append(f"\n## {e['property_id']}  ({c['obligations']} obligations, {len(c['rules'])} rules)\n")
    for rid, txt in sorted(c["rules"].items(), key=lambda kv: [(0, int(x), '') if x.isdigit() else (1, 0, x) for x in __import__('re').findall(r'\d+|[A-Za-z]+', kv[0].split('.', 1)[1])]):
        n = c["per_rule_instances"].get(rid, 0)
        out.append(f"* **{rid}** ({n} inst.) — {txt}")
        tot_r += 1
        tot_o += n
out.insert(1, f"\n{tot_r} rules, {tot_o} obligations on the current tree.\n")
open(os.path.join(V, "RULES.md"), "w").write("\n".join(out) + "\n")
print(tot_r, tot_o)
