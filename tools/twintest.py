#!/usr/bin/env python3
"""Benign refactor twins (twins/<name>/patch.diff: extract-method, merged branches, early returns ... - each confirmed to leave the
pinned test suite unchanged). Every check must stay silent on every twin.
usage: tools/twintest.py [name ...]"""
import glob
import importlib
import os
import shutil
import subprocess
import sys
import tempfile
from concurrent.futures import ProcessPoolExecutor

VERIF = os.path.dirname(os.path.dirname(os.path.abspath(__file__)))
sys.path.insert(0, VERIF)
from sa.core import Repo, Check, AnalysisError, run_rules, unlisted_violations  # noqa: E402

ALL = [f"C{i:02d}" for i in range(1, 21)]


def run(job):
    name, patch = job
    sc = tempfile.mkdtemp(prefix="verif_twin_", dir=os.environ.get("TMPDIR", "/tmp"))
    try:
        shutil.copytree("/repo/liquer", os.path.join(sc, "liquer"), ignore=shutil.ignore_patterns("__pycache__"))
        r = subprocess.run(["patch", "-p1", "--no-backup-if-mismatch", "-s", "-i", patch], cwd=sc, capture_output=True, text=True)
        if r.returncode != 0:
            return name, [("-", "STALE", [r.stdout[:100]])]
        bad = []
        for p in ALL:
            mod = importlib.import_module(f"sa.rules.{p.lower()}")
            try:
                chk = Check(p, Repo(sc), "quick")
                errs = run_rules(mod, chk)
                v = sorted({(o.rule, o.what[:90]) for o in unlisted_violations(chk)})
                if v:
                    bad.append((p, "VIOLATION", v))
                if errs:
                    bad.append((p, "ANALYSIS-ERROR", [x[:140] for x in errs[:3]]))
            except AnalysisError as e:
                bad.append((p, "ANALYSIS-ERROR", [str(e)[:140]]))
        return name, bad
    finally:
        shutil.rmtree(sc, ignore_errors=True)


def main():
    want = sys.argv[1:]
    jobs = []
    for d in sorted(glob.glob(os.path.join(VERIF, os.environ.get("TWIN_DIR", "twins"), "*", "patch.diff"))):
        n = os.path.basename(os.path.dirname(d))
        if not want or n in want:
            jobs.append((n, d))
    nbad = 0
    with ProcessPoolExecutor(min(16, len(jobs) or 1)) as ex:
        for name, bad in ex.map(run, jobs):
            if bad:
                nbad += 1
                for p, st, v in bad:
                    for x in v:
                        print(f"{st:14s} {p} {x}  <= twin {name}")
            else:
                print(f"silent         all 20 checks  <= twin {name}")
    print(f"{len(jobs)} benign twins, {nbad} with an alarm")
    sys.exit(1 if nbad else 0)


if __name__ == "__main__":
    main()
