#!/venv/bin/python
"""Run the checks against seeded changes on scratch copies of /repo (outside /repo and /verif).

usage: tools/seedtest.py [--dir /tmp/seed_out | /verif/seeded] [ID ...]
For every <dir>/<ID>/patch*.diff (or <dir>/<name>/patch.diff with meta.json naming the property):
copy /repo/liquer to a scratch dir, apply the patch, run ./check <property> --repo scratch and every other
property too; print which checks fire.  Scratch copies are removed immediately.
"""
import glob
import json
import os
import shutil
import subprocess
import sys
import tempfile
from concurrent.futures import ThreadPoolExecutor

VERIF = os.path.dirname(os.path.dirname(os.path.abspath(__file__)))
ALL = [f"C{i:02d}" for i in range(1, 21)]


def implemented():
    return [p for p in ALL if os.path.exists(os.path.join(VERIF, "sa", "rules", p.lower() + ".py"))]


def run_patch(patch, prop, props):
    sc = tempfile.mkdtemp(prefix="seedtest_", dir=os.environ.get("TMPDIR", "/tmp"))
    try:
        shutil.copytree("/repo/liquer", os.path.join(sc, "liquer"), ignore=shutil.ignore_patterns("__pycache__"))
        r = subprocess.run(["patch", "-p1", "--no-backup-if-mismatch", "-s", "-i", patch], cwd=sc,
                           capture_output=True, text=True)
        if r.returncode != 0:
            return patch, prop, "PATCH-FAILED " + (r.stdout + r.stderr).strip()[:200], {}
        res = {}
        for p in props:
            c = subprocess.run([os.path.join(VERIF, "check"), p, "--repo", sc], capture_output=True, text=True,
                               env=dict(os.environ, VERIF_NO_EVIDENCE="1"))
            res[p] = (c.returncode, [l for l in c.stdout.splitlines() if l.startswith("liquer/") or "ANALYSIS-ERROR" in l])
        return patch, prop, "ok", res
    finally:
        shutil.rmtree(sc, ignore_errors=True)


def main():
    args = sys.argv[1:]
    d = "/tmp/seed_out"
    if args and args[0] == "--dir":
        d = args[1]
        args = args[2:]
    jobs = []
    props = implemented()
    for sub in sorted(os.listdir(d)):
        full = os.path.join(d, sub)
        if not os.path.isdir(full):
            continue
        for patch in sorted(glob.glob(os.path.join(full, "patch*.diff"))):
            prop = sub[:3] if sub[:1] == "C" and sub[1:3].isdigit() else None
            meta = patch.replace("patch", "meta").replace(".diff", ".json")
            if os.path.exists(meta):
                try:
                    prop = json.load(open(meta)).get("property", prop)
                except Exception:
                    pass
            if args and prop not in args and sub not in args:
                continue
            jobs.append((patch, prop))
    with ThreadPoolExecutor(8) as ex:
        futs = [ex.submit(run_patch, p, prop, props) for p, prop in jobs]
        caught = missed = 0
        for f in futs:
            patch, prop, status, res = f.result()
            name = os.path.relpath(patch, d)
            if status != "ok":
                print(f"{name:28s} {prop}  {status}")
                continue
            own = res.get(prop)
            fired = [p for p, (rc, _) in res.items() if rc == 1]
            errs = [p for p, (rc, _) in res.items() if rc == 2]
            if own is None:
                verdict = "NO-CHECK-YET"
            elif own[0] == 1:
                verdict = "CAUGHT"
                caught += 1
            elif own[0] == 2:
                verdict = "ANALYSIS-ERROR"
            else:
                verdict = "missed"
                missed += 1
            print(f"{name:28s} {prop}  {verdict:14s} fired={fired} errors={errs}")
            if own and own[0] != 0:
                for l in own[1][:3]:
                    print("      ", l[:220])
        print(f"caught {caught}, missed {missed}, total {len(jobs)}")


if __name__ == "__main__":
    main()
