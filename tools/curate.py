#!/usr/bin/env python3
"""Confirm seeded changes against the *current* /repo HEAD in scratch worktrees and keep the confirmed ones.

For every /tmp/seed_out/<ID>/patch<n>.diff: make a scratch worktree of /repo HEAD under /tmp/cur, check that the
demo passes there (exit 0), apply the patch, check that the demo now fails (exit 1) and that the pinned test suite
still passes (216 passed), regenerate the patch against HEAD and store it as /verif/seeded/<ID>-<n>/ with the demo
and a meta.json saying what was run.  The worktree is removed afterwards.
"""
import glob
import json
import os
import shutil
import subprocess
import sys
from concurrent.futures import ThreadPoolExecutor

SRC = sys.argv[1] if len(sys.argv) > 1 else "/tmp/seed_out"
ONLY = sys.argv[2:] if len(sys.argv) > 2 else None
OUT = "/verif/seeded"
TAG = os.environ.get("SEED_TAG", "")
PY = "/venv/bin/python"
PYTEST = [PY, "-m", "pytest", "-q", "-p", "no:cacheprovider", "--timeout=900", "--continue-on-collection-errors"]


def sh(cmd, cwd=None, timeout=900):
    r = subprocess.run(cmd, cwd=cwd, capture_output=True, text=True, timeout=timeout)
    return r.returncode, r.stdout + r.stderr


def one(patch):
    d = os.path.dirname(patch)
    pid = os.path.basename(d)
    n = os.path.basename(patch)[5:-5]
    name = f"{pid}-{TAG}{n}"
    wt = f"/tmp/cur/{name}"
    demo = os.path.join(d, f"demo{n}.py")
    meta_src = os.path.join(d, f"meta{n}.json")
    res = {"name": name}
    sh(["git", "-C", "/repo", "worktree", "remove", "--force", wt])
    rc, out = sh(["git", "-C", "/repo", "worktree", "add", "-q", "--detach", wt, "HEAD"])
    if rc:
        return {**res, "status": "worktree-failed", "detail": out[-300:]}
    try:
        shutil.copy(demo, os.path.join(wt, "demo_seed.py"))
        rc0, o0 = sh([PY, "demo_seed.py"], cwd=wt, timeout=600)
        res["demo_clean"] = rc0
        rc, out = sh(["git", "apply", "--3way", patch], cwd=wt)
        if rc:
            rc, out = sh(["patch", "-p1", "--no-backup-if-mismatch", "-i", patch], cwd=wt)
        if rc:
            return {**res, "status": "patch-failed", "detail": out[-300:]}
        sh(["git", "reset", "-q"], cwd=wt)
        rc1, o1 = sh([PY, "demo_seed.py"], cwd=wt, timeout=600)
        res["demo_patched"] = rc1
        res["demo_patched_out"] = [l for l in o1.splitlines() if "VIOLATED" in l][:1]
        rct, ot = sh(PYTEST, cwd=wt, timeout=1500)
        tail = [l for l in ot.splitlines() if " passed" in l or " failed" in l][-1:] or [ot[-200:]]
        res["tests"] = tail[0]
        ok_tests = "216 passed" in tail[0] and "3 failed" in tail[0] and "15 errors" in tail[0]
        _, diff = sh(["git", "diff", "--", "liquer"], cwd=wt)
        res["status"] = "confirmed" if (rc0 == 0 and rc1 == 1 and ok_tests) else "rejected"
        if res["status"] == "confirmed":
            od = os.path.join(OUT, name)
            os.makedirs(od, exist_ok=True)
            with open(os.path.join(od, "patch.diff"), "w") as f:
                f.write(diff)
            shutil.copy(demo, os.path.join(od, "demo.py"))
            meta = {}
            if os.path.exists(meta_src):
                try:
                    meta = json.load(open(meta_src))
                except Exception:
                    meta = {}
            head = subprocess.check_output(["git", "-C", "/repo", "rev-parse", "--short", "HEAD"], text=True).strip()
            meta.update({"property": meta.get("property", pid[:3]), "confirmed_against": head,
                         "what_was_run": [f"demo on clean worktree of {head}: exit {rc0}", f"demo with patch applied: exit {rc1} {res['demo_patched_out']}",
                                          f"pinned test suite with patch applied: {tail[0].strip()}"],
                         "origin": "independent sub-agent given only the property text and a scratch worktree"})
            with open(os.path.join(od, "meta.json"), "w") as f:
                json.dump(meta, f, indent=1)
        return res
    finally:
        sh(["git", "-C", "/repo", "worktree", "remove", "--force", wt])
        shutil.rmtree(wt, ignore_errors=True)


def main():
    os.makedirs("/tmp/cur", exist_ok=True)
    patches = sorted(glob.glob(os.path.join(SRC, "*", "patch*.diff")))
    if ONLY:
        patches = [p for p in patches if any(o in p for o in ONLY)]
    with ThreadPoolExecutor(6) as ex:
        for r in ex.map(one, patches):
            print(json.dumps(r))
    sh(["git", "-C", "/repo", "worktree", "prune"])


if __name__ == "__main__":
    main()
